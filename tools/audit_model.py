#!/usr/bin/env python3
"""Development aid: replays cases dumped by TestDumpModelCases (harness/props/dump_test.go) through
python-jsonschema and lists disagreements with the harness's reference evaluator.

  cd /verif/harness/props && VERIF_DUMP=/tmp/cases.jsonl go test -tags verif -run TestDumpModelCases -rapid.checks=3000 .
  python3-vt /verif/tools/audit_model.py /tmp/cases.jsonl

Known, intended differences are filtered: `format` never asserts in the model (documented
deviation of the library), python's `re` vs Go regexp on the pattern pool agree."""
import json, sys
from jsonschema import Draft202012Validator, Draft7Validator

def main(path):
    n = bad = skipped = 0
    for line in open(path):
        c = json.loads(line)
        cls = Draft7Validator if c["draft7"] else Draft202012Validator
        try:
            v = cls(c["schema"])  # no format checker: format is annotation-only
            ok = v.is_valid(c["instance"])
        except Exception as e:  # e.g. python refuses something the model tolerates
            skipped += 1
            continue
        n += 1
        if ok != c["valid"]:
            bad += 1
            if bad <= 10:
                print("DISAGREE python=%s model=%s\n schema: %s\n instance: %s" % (ok, c["valid"], json.dumps(c["schema"]), json.dumps(c["instance"])))
    print("compared %d cases, %d disagreements, %d skipped" % (n, bad, skipped))
    return 1 if bad else 0

if __name__ == "__main__":
    sys.exit(main(sys.argv[1]))
