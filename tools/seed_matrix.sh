#!/bin/sh
# Runs every seeded change against the quick check(s) of the property it breaks and records the
# outcome in seeded/RESULTS.tsv (seed, property, exit code, wall seconds). Uses /repo (apply/undo).
cd /verif || exit 2
: > seeded/RESULTS.tsv
for d in seeded/C*-*; do
  s=$(basename "$d")
  prop=$(jq -r .property "$d/meta.json")
  start=$(date +%s)
  out=$(tools/seed_check.sh "$d" "$prop" 2>&1 | grep -v KNOWN | tail -1)
  rc=$(echo "$out" | sed -n 's/.* rc=\([0-9]*\).*/\1/p')
  echo "$s	$prop	rc=$rc	$(( $(date +%s) - start ))s" >> seeded/RESULTS.tsv
done
cat seeded/RESULTS.tsv
