#!/bin/sh
# Runs the thorough tier of every property once (development aid; ~1.5-2 h on 16 cores).
cd "$(dirname "$0")/.." || exit 2
if [ -n "$VP_RUN_REPO" ] && [ "$(pwd)" != "/verif" ]; then
  # running from a snapshot (vp run --with-repo): use the snapshot of /repo as well, so that the
  # live /repo can be edited meanwhile
  export GOFLAGS=-mod=mod GOPROXY=off GOSUMDB=off GOTOOLCHAIN=local
  (cd harness && go mod edit -replace github.com/google/jsonschema-go="$VP_RUN_REPO")
  export VERIF_REPO_OVERRIDE="$VP_RUN_REPO"
  echo "using repo snapshot $VP_RUN_REPO"
fi
for id in C11 C12 C19 C08 C15 C18 C04 C09 C01 C02 C07 C16 C03 C06 C14 C17 C20 C05 C10 C13; do
  start=$(date +%s)
  out=$(VERIF_SEED=${VERIF_SEED:-1} bin/check $id thorough 2>&1); rc=$?
  echo "$id rc=$rc $(( $(date +%s) - start ))s $(echo "$out" | grep -E '^(SUMMARY|VIOLATION|INCONCLUSIVE)' | tr '\n' ' ')"
  [ $rc -ne 0 ] && echo "$out" | tail -40
done
