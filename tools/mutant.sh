#!/bin/sh
# usage: tools/mutant.sh '<sed expr>' <file relative to /repo> <ID> [<ID>...]
# Applies a one-off mutation to /repo, checks that the repo's own tests still pass (optional, RUNTESTS=1),
# runs the quick checks of the named properties, and restores /repo.
expr="$1"; file="$2"; shift 2
cd /repo || exit 2
git diff --quiet || { echo "repo dirty"; exit 2; }
sed -i "$expr" "$file"
if git diff --quiet; then echo "MUTATION DID NOT APPLY"; exit 2; fi
git diff | grep '^[-+]' | grep -v '^+++\|^---'
export GOFLAGS=-mod=mod GOPROXY=off GOSUMDB=off GOTOOLCHAIN=local
if ! go build ./... ; then echo "DOES NOT COMPILE"; git checkout -- .; exit 2; fi
if [ -n "$RUNTESTS" ]; then go test -vet=off -count=1 ./... >/tmp/mut-test.log 2>&1 && echo "repo tests: PASS" || echo "repo tests: FAIL (mutant is caught by the existing suite)"; fi
for id in "$@"; do
  out=$(cd /verif && bin/check "$id" quick 2>&1)
  rc=$?
  echo "$id rc=$rc $(echo "$out" | grep -E '^(VIOLATION|INCONCLUSIVE|SUMMARY)' | head -3 | tr '\n' ' ')"
  [ -n "$SHOW" ] && echo "$out" | grep -v '^\s*\(sgen\|satisfy\|gen\|rapid\)\.go' | tail -25
done
git checkout -- .
rm -f /verif/replays/*-quick-seed1-*
