#!/bin/sh
# usage: tools/benign_check.sh <dir with patch.diff>   (a behaviour-preserving change)
# Applies the change to /repo, runs the repo's own suite and ALL quick checks (which must stay
# silent: exit 0), and undoes it. Prints one line per check that is not silent.
d=$(cd "$1" && pwd)
cd /repo || exit 2
git diff --quiet || { echo "repo dirty"; exit 2; }
git apply "$d/patch.diff" || { echo "patch does not apply"; exit 2; }
export GOFLAGS=-mod=mod GOPROXY=off GOSUMDB=off GOTOOLCHAIN=local
go test -vet=off -count=1 ./... >/dev/null 2>&1 && echo "suite: pass" || echo "suite: FAIL"
bad=0
for id in C01 C02 C03 C04 C05 C06 C07 C08 C09 C10 C11 C12 C13 C14 C15 C16 C17 C18 C19 C20; do
  out=$(cd /verif && VERIF_SEED=${VERIF_SEED:-1} bin/check "$id" quick 2>&1); rc=$?
  if [ $rc -ne 0 ]; then bad=$((bad+1)); echo "ALARM $id rc=$rc $(echo "$out" | grep -E '^(VIOLATION|INCONCLUSIVE)' | head -1)"; echo "$out" | grep -B2 -A12 'common_test.go' | head -30 | cut -c1-400; fi
done
git -C /repo checkout -- .
echo "alarms=$bad"
