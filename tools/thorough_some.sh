#!/bin/sh
# Runs the thorough tier of the properties named on the command line (development aid).
cd "$(dirname "$0")/.." || exit 2
if [ -n "$VP_RUN_REPO" ] && [ "$(pwd)" != "/verif" ]; then
  export GOFLAGS=-mod=mod GOPROXY=off GOSUMDB=off GOTOOLCHAIN=local
  (cd harness && go mod edit -replace github.com/google/jsonschema-go="$VP_RUN_REPO")
  export VERIF_REPO_OVERRIDE="$VP_RUN_REPO"
  echo "using repo snapshot $VP_RUN_REPO"
fi
for id in "$@"; do
  start=$(date +%s)
  out=$(VERIF_SEED=${VERIF_SEED:-1} bin/check $id thorough 2>&1); rc=$?
  echo "$id rc=$rc $(( $(date +%s) - start ))s $(echo "$out" | grep -E '^(SUMMARY|VIOLATION|INCONCLUSIVE)' | tr '\n' ' ')"
  if [ $rc -ne 0 ]; then echo "$out" | tail -40; fi
done
exit 0
