#!/bin/sh
# usage: tools/seed_verify.sh <seed dir containing patch.diff demo_test.go meta.json>
# Verifies, in a scratch worktree of /repo's HEAD (outside /repo and /verif), that the change
#  (1) applies and compiles, (2) passes the existing suite, (3) makes the demo fail, and that
#  (4) the demo passes without the change. Removes the worktree afterwards.
d=$(cd "$1" && pwd)
export GOFLAGS=-mod=mod GOPROXY=off GOSUMDB=off GOTOOLCHAIN=local
w=$(mktemp -d /tmp/seedverify.XXXXXX)
git -C /repo worktree add -q --detach "$w" HEAD || exit 2
trap 'git -C /repo worktree remove --force "$w" >/dev/null 2>&1; rm -rf "$w"' EXIT
cd "$w" || exit 2
git apply "$d/patch.diff" || { echo "RESULT patch-does-not-apply"; exit 1; }
go build ./... || { echo "RESULT does-not-compile"; exit 1; }
if go test -vet=off -count=1 ./... >/tmp/seedverify.suite.log 2>&1; then suite=pass; else suite=FAIL; fi
cp "$d/demo_test.go" jsonschema/seed_demo_test.go
race=""; grep -q '"-race"\|go test -race\|race' "$d/meta.json" 2>/dev/null && race="-race"
if go test $race -vet=off -count=1 -run 'Seed|Demo|TestC[0-9]' ./jsonschema >/tmp/seedverify.with.log 2>&1; then with=pass; else with=FAIL; fi
git apply -R "$d/patch.diff"
if go test $race -vet=off -count=1 -run 'Seed|Demo|TestC[0-9]' ./jsonschema >/tmp/seedverify.without.log 2>&1; then without=pass; else without=FAIL; fi
echo "RESULT suite-with-change=$suite demo-with-change=$with demo-without-change=$without"
[ "$suite" = pass ] && [ "$with" = FAIL ] && [ "$without" = pass ]
