#!/usr/bin/env python3
"""Regenerates /verif/MANIFEST.json from the table below (one entry per property).
A property whose 'built' flag is False is listed under not_applicable with its reason."""
import json, subprocess, sys

ALL = ["C%02d" % i for i in range(1, 21)]

# id -> dict(built, technique, text, note, design)
P = {}

def prop(id, technique, text, note, built=True, reason=None):
    P[id] = dict(built=built, technique=technique, text=text, note=note, reason=reason)

prop("C19",
     "property-based testing (rapid) against a key-order model + exhaustive small-scope enumeration",
     "Generated Schema trees (hostile property names, PropertyOrder as permutation/subset/superset/absent/duplicate lists, nested to depth 3) are marshalled 12 times; the key sequence of every 'properties' object is read back with a token walk and compared with an explicit model ([n in order | n in props] ++ sorted rest); duplicates must give an error. The sub-space 'orders of length<=4 over {A,B,C,Z} x subsets of {A,B,C}' is enumerated completely in every run. Exploration level: it shows the property on everything generated, not for all inputs.",
     "Trusted: encoding/json's Decoder for reading the output back; Go string order as the meaning of 'ascending'. Map-iteration randomness is sampled (Go re-randomises per range), not enumerated.")

def main():
    hooks_commit = subprocess.run(["git", "-C", "/repo", "log", "--format=%H", "-1", "--", "jsonschema/export_verif.go"],
                                  capture_output=True, text=True).stdout.strip()
    checks, na = [], []
    for id in ALL:
        e = P.get(id)
        if not e or not e["built"]:
            na.append({"property_id": id, "reason": (e or {}).get("reason") or "check not built yet in this session (work in progress; see DESIGN.md section 4 for the planned check)"})
            continue
        checks.append({
            "property_id": id,
            "quick_cmd": "bin/check %s quick" % id,
            "thorough_cmd": "bin/check %s thorough" % id,
            "evidence_file": "/verif/evidence/%s.json" % id,
            "replay_cmd_template": "bin/check %s --replay {path}" % id,
            "engine": "rapid-harness",
            "level_claimed": {"category": "exploration", "text": e["text"], "design_ref": "DESIGN.md section 4, %s" % id},
            "level_note": e["note"],
            "technique": e["technique"],
        })
    m = {
        "version": 1,
        "setup_cmd": "cd /verif && sh bin/setup",
        "hooks": {
            "guard": "verif",
            "enable": "go build tag: the harness compiles its test binary with `go test -c -tags verif` against /repo (module replace => /repo); the only guarded file is jsonschema/export_verif.go",
            "baseline_off_cmd": "cd /repo && go test -vet=off -count=1 ./...",
            "source_commits": [hooks_commit] if hooks_commit else [],
            "add_only": True,
        },
        "engines": [{
            "name": "rapid-harness",
            "path": "/verif/harness",
            "serves_properties": [c["property_id"] for c in checks],
            "kind_free_text": "Go module (pgregory.net/rapid v1.3.0 + native go fuzzing) with generators, an independent reference evaluator, and one TestCxx/Replay per property; driven by bin/check (harness/cmd/check)",
        }],
        "checks": checks,
        "not_applicable": na,
        "notes": "All checks rebuild from /repo's working tree on every invocation (go build cache keyed on file contents). Exit 0 held / 1 VIOLATION / 2 INCONCLUSIVE (infrastructure or generator-health problem, never a verdict). Known findings: /verif/known_findings.json.",
    }
    json.dump(m, open("/verif/MANIFEST.json", "w"), indent=1)
    open("/verif/MANIFEST.json", "a").write("\n")

if __name__ == "__main__":
    main()
