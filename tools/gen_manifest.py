#!/usr/bin/env python3
"""Regenerates /verif/MANIFEST.json from the table below (one entry per property).
A property whose 'built' flag is False is listed under not_applicable with its reason."""
import json, subprocess, sys

ALL = ["C%02d" % i for i in range(1, 21)]

# id -> dict(built, technique, text, note, design)
P = {}

def prop(id, technique, text, note, built=True, reason=None):
    P[id] = dict(built=built, technique=technique, text=text, note=note, reason=reason)

prop("C19",
     "property-based testing (rapid) against a key-order model + exhaustive small-scope enumeration",
     "Generated Schema trees (hostile property names, PropertyOrder as permutation/subset/superset/absent/duplicate lists, nested to depth 3) are marshalled 12 times; the key sequence of every 'properties' object is read back with a token walk and compared with an explicit model ([n in order | n in props] ++ sorted rest); duplicates must give an error. The sub-space 'orders of length<=4 over {A,B,C,Z} x subsets of {A,B,C}' is enumerated completely in every run. Exploration level: it shows the property on everything generated, not for all inputs.",
     "Trusted: encoding/json's Decoder for reading the output back; Go string order as the meaning of 'ascending'. Map-iteration randomness is sampled (Go re-randomises per range), not enumerated.")


MODEL_NOTE = "Trusted: the harness's reference evaluator (refmodel: own indexer, RFC 3986/6901 code, explicit annotation sets), itself pinned at every run to all 2,012 official JSON-Schema-Test-Suite verdicts shipped in /repo (mismatch => exit 2, never a verdict); Go regexp on both sides (documented deviation); encoding/json."

prop("C01",
     "property-based testing (rapid): grammar-generated 2020-12 schema documents x instances, differential against an independent reference evaluator",
     "Grammar-based generation of whole 2020-12 schema documents (every assertion and applicator keyword, boolean schemas at every position, $defs/$anchor/$ref, unevaluated*, lenses for numeric/string/array/object/logic/reference interactions) with operands and instance leaves drawn from the same small boundary pools; one case in six comes from the focused annotation-flow generator of C07; each schema meets 4 instances (schema-directed satisfier + single-point mutations, free draws). The library verdict (Unmarshal, Resolve, Validate) must equal the verdict of the reference evaluator. Exploration: tens of thousands of distinct keyword combinations per quick run, millions in thorough; no claim beyond what was generated.",
     MODEL_NOTE + " multipleOf is stripped when an instance holds |n| >= 2^50 (the property's own exactness restriction).")
prop("C02",
     "property-based testing (rapid): draft-07 documents and Loader universes vs. the reference evaluator in draft-07 mode; metamorphic $schema configurations",
     "Three generated families: draft-07 documents (definitions, both dependency forms, both items forms + additionalItems, #name $id anchors, $ref with siblings and with $id beside it) against the draft-07 reference evaluator; draft-07 roots with 1-2 Loader documents (with/without own $schema) referenced from the root and from subschemas; documents built around one or two constructs whose meaning differs between the drafts ($ref with an asserting sibling, array items + additionalItems, dependencies, #name anchors), some of them under a near-miss $schema spelling (expectation: refused for every instance OR draft-07 semantics throughout); and one schema under every $schema configuration (absent, 2020-12, both draft-07 spellings, unsupported values which must be refused for every instance). The run reports how often the two drafts' evaluators disagree on the instance (cases that can tell the drafts apart).",
     MODEL_NOTE + " Unsupported $schema values are chosen far from the supported spellings.")
prop("C05",
     "property-based testing (rapid): round-trip and metamorphic oracles over reflection-generated Schema structs and grammar-generated documents",
     "Schema struct values populated field by field through reflection (nil / empty non-nil / pointer-to-nil / nested) under the documented exclusivity rules are marshaled, unmarshaled and marshaled again: bytes (or JSON value when PropertyOrder is set) must agree, Resolve must behave alike and verdict vectors on generated instances must be identical. Schema documents of both drafts (plus unknown keywords) must re-marshal to themselves up to the documented normalisations (implemented explicitly in the harness), keep their verdicts (also compared with the reference evaluator), and unmarshal to the same schema from an equivalent spelling of the same JSON text (\\uXXXX escapes, whitespace).",
     MODEL_NOTE + " Numbers are compared after float64 rounding (encoding/json re-spells floats).")
prop("C07",
     "property-based testing (rapid) with exhaustive instance enumeration per schema, differential against the reference evaluator's explicit evaluated sets",
     "A focused generator builds trees of in-place applicators (allOf/anyOf/oneOf/if-then-else/dependentSchemas/$ref/$dynamicRef/not, depth<=4) over properties/patternProperties/additionalProperties resp. prefixItems/items/contains leaves with failing branches, cousins and nested unevaluated*; every schema is evaluated against ALL 16 objects over four names resp. ALL 31 arrays of length<=4 over two item values. Non-triviality is semantic: the run counts the cases whose verdict changes under a deliberately wrong evaluator that ignores in-place annotations or leaks annotations of failed/not subschemas.",
     MODEL_NOTE)
prop("C08",
     "property-based testing (rapid): differential across Go representations of one JSON value (reflection-built), canonical decoding as reference",
     "For generated (schema, JSON value) pairs the value is re-typed five times by a representation expander (numeric kind per leaf incl. json.Number and named types, []any/[]T/[N]T/named slices, map[string]any/map[K]T with named key types, 0-2 pointers, interfaces, nil pointers for null); every representation must get the verdict of json.Unmarshal-into-any of the same document, and must not panic. The expander self-checks each value by json.Marshal.",
     "Trusted: encoding/json as the definition of 'the same document'; nil slices/maps and structs are outside the domain; float32 only where its spelling is exact; byte slices excluded.")
prop("C11",
     "property-based testing (rapid): Equal vs. the harness's canonical JSON equality over mixed Go representations; algebraic laws",
     "Pairs and triples of JSON values (equivalent respelled/permuted copies, single-point mutations incl. last-bit and beyond-2^53 integers and NFC/NFD strings, independent draws), each side independently re-typed, are compared with Equal; the expected answer is exact rational/code-point/unordered-object equality computed on the harness's own value trees. Reflexivity, symmetry and transitivity are checked directly. A list of hand-written corner cases runs first.",
     "Trusted: the harness's value model (math/big rationals). Representations are those of C08.")
prop("C12",
     "property-based testing (rapid): definitional oracle (canonical equality and the library's Equal), repeated calls, hash law through a test hook",
     "enum/const/uniqueItems schemas (from documents and as structs holding mixed representations) meet instances with planted equal-but-not-identical duplicates and near-duplicates at random positions; the verdict must match the definition computed twice (harness equality; library Equal), be identical over 5 calls (fresh maphash seed each), and Equal(x,y) must imply equal hashes under 3 seeds (hook VerifHash).",
     "Trusted: C11 ties Equal to JSON equality. maphash seeds cannot be chosen by the harness (sampled, not enumerated).")
prop("C15",
     "property-based testing (rapid): algebraic laws of ApplyDefaults (no re-implementation) + ValidateDefaults vs. the reference evaluator",
     "Schemas with defaults at any depth of properties (all JSON types, incomplete object defaults, required/default conflicts, defaults on object and non-object subschemas) x instances (any subset of properties, non-objects anywhere). Checked: idempotence, before is-contained-in after, no required key filled, every added key declared and justified by a default or a non-empty container, documented completeness, isolation between instances (the first result is scribbled over, a fresh copy must still get the declared defaults); Resolve(ValidateDefaults) errs exactly when the reference evaluator rejects some default against its declaring subschema.",
     MODEL_NOTE + " Schemas are reference-free (documented limitation of ApplyDefaults/ValidateDefaults).")
prop("C18",
     "property-based testing (rapid): metamorphic relation (decorate a schema, verdicts must not change)",
     "Generated schemas of both drafts are decorated at 1-4 random subschemas with documented non-asserting keywords (well-typed values) or unknown names (letter-case variants of every standard keyword, Go field names, random identifiers) carrying arbitrary JSON; Unmarshal and Resolve must accept and every instance must keep its verdict; a third of the cases aim a decoration at a property its parent requires and add an instance lacking exactly that property.",
     "The undecorated library verdict is the reference (C01/C02 tie it to the specification). Open known finding number-beyond-float64-refused (1e999 in an unknown keyword or examples) is generated in a 4% slice only.")


prop("C03",
     "property-based testing (rapid): generated URI universes (target first, spelling second) vs. an independent RFC 3986/6901 resolver; fault injection in the Loader",
     "Universes of 1-4 documents with trees of embedded resources ($id absolute/relative/../ ./ /abs-path/urn:), anchors scoped to their resource, canonical-id vs retrieval-URI aliases, BaseURI empty/absolute, Loader nil/present/faulty; every reference picks its target node first and one of ~10 spellings second, giving chains, diamonds and cycles. Routing instances carry markers so that a route is valid iff it ends at the designated node; verdicts are compared with the reference evaluator, whose resolution is cross-checked against the generator's intention. Planted dangling references and unavailable documents must make Resolve fail; the Loader log must show no repeated URI and nothing that no reference names; Resolve runs under a deadline.",
     MODEL_NOTE + " Domain restrictions (a)-(g) of DESIGN.md 3.5 (places where the specification leaves the answer open). Open known finding empty-ref-ignored (\"$ref\": \"\" is treated as no reference) is generated in a 5% slice of the universes only and counted.")
prop("C04",
     "property-based testing (rapid): reflection-built Go types and values, encoding/json as the encoder, inferred schema as the acceptor",
     "Types are built with reflect.StructOf/SliceOf/ArrayOf/MapOf/PointerTo over all kinds and ~35 declared pool types (embedded by value/pointer/unexported, shadowing, std marshaler types), json tags from a grammar; values are filled by reflection (nil pointers/slices, extreme integers and floats, invalid UTF-8, interfaces). json.Marshal(&v) must validate against Resolve(ForType(T)); ForType may fail only for documented unsupported/cyclic types (own predicate). Two open known findings are generated only in dedicated 5% slices and attributed by class predicate.",
     "Trusted: encoding/json; reflect. Exclusions are the property's own (nil maps, []byte, ',string', user marshalers, pointer-receiver marshalers in non-addressable positions).")
prop("C06",
     "property-based testing (rapid, history-based): generated dynamic-scope topologies x sequences of Validate calls vs. an explicit dynamic-scope model",
     "1-5 resources (embedded or Loader-supplied) independently declare $dynamicAnchor/$anchor/nothing at their root or on a detached child; entry paths visit resources in random order through $ref / pointer-form $dynamicRef / allOf hops and end in a fragment, resource-relative or pointer-form $dynamicRef; paths may join earlier paths (one $dynamicRef object under several scopes) and be combined under anyOf/oneOf/if/not (a failing branch followed by another in one call); 2-10 Validate calls share one Resolved and each verdict is compared with the reference evaluator (outermost declaring resource wins, otherwise plain $ref) and with a freshly resolved copy (no leak between calls).",
     MODEL_NOTE)
prop("C09",
     "property-based testing (rapid): type-directed single-point mutation of valid encodings; implication oracle against encoding/json's strict decoder",
     "Valid encodings of generated values are mutated at a position chosen by walking type and document in parallel (drop a required/optional key, add an undeclared key, inadmissible JSON type, integer past either bound of its sized kind, negative for unsigned, fraction for integer, null, wrong array length, 1e300 for float32) or freely, and documents are also built from the inferred schema itself (schema-directed); whenever the inferred schema accepts, Decoder.DisallowUnknownFields must decode into new(T); mutations that break a rule the property names must be rejected.",
     "Trusted: encoding/json's decoder as the definition of 'decodes'. Integers are normalised to the property's domain (plain spelling, 64-bit range of the position's type).")
prop("C10",
     "property-based testing (rapid) for robustness: hostile inputs to every entry point under recover() and a deadline, with a per-case journal for fatal errors; native fuzzing in the thorough tier",
     "Targets: near-valid and hostile schema bytes through Unmarshal/Resolve/Validate/ApplyDefaults; equality-centric schemas (uniqueItems/const/enum) meeting arrays of arrays with equal duplicates in every representation; defaults-centric schemas meeting typed and named-key maps; wild Schema graphs (shared/cyclic pointers, nil children, malformed URIs/regexps, conflicting fields) with odd BaseURIs and loaders; ForType on arbitrary types incl. recursive and unsupported ones; C03 universes with failing, document-swapping and self-returning loaders. Instances of any shape in any Go representation. A panic, a 20 s overrun or a dead process (journal) is a violation.",
     "Validate is only called on graphs without an in-place reference cycle (the property's proviso; decided through the verif hook VerifRefs, used as a guard, never as an oracle). Loader universes are finite by construction.")
prop("C13",
     "schedule exploration by the Go runtime under the race detector (-race, halt_on_error) over rapid-generated workloads + sequential-equivalence oracle",
     "Generated workloads: shared Resolved values (incl. a $dynamicRef topology behind a shared caching Loader), shared Schema trees, shared types and TypeSchemas; 2-8 goroutines x 1-12 operations (Validate, ApplyDefaults on private copies, Marshal, CloneSchemas, Resolve, ForType) released by one barrier, always on a fresh, untouched world so lazily initialised state is first touched by the racing goroutines. Any race report kills the process (journalled workload = replay); every result must equal the same call executed alone.",
     "Interleavings are sampled by the scheduler, not enumerated; the race detector is happens-before based, which makes it insensitive to actual timing for accesses that do occur. This is the weakest claim of the 20 (see DESIGN.md section 6).")
prop("C14",
     "property-based testing (rapid, history-based) with twin-object purity snapshots, repetition, and fresh-process digest comparison",
     "Histories of 3-12 Resolve/Marshal/Validate calls over one Schema (document of either draft biased to multi-entry maps, or a Loader universe) and three instances in mixed representations; after every call the Schema tree, every Schema the Loader returned and every instance must be DeepEqual to independently built twins; repeated calls must agree; the driver re-runs the same seed in 3 (quick) / 8 (thorough) fresh processes and compares per-case digests (case hash guards the harness's own determinism, result hash is the property).",
     "Map iteration order and hash seeds are sampled, not enumerated. Error texts are not compared, only error-ness.")
prop("C16",
     "property-based testing (rapid): metamorphic and differential oracles for ForType (twice-equal, pointer-disjointness, For(*T) vs For(T), encoding/json field order) over generated types and options",
     "For generated types (incl. recursive, unsupported, repeated) and options (TypeSchemas overriding pool types that occur plain, by pointer or embedded; IgnoreInvalidTypes) the check demands: equal results of two calls, pairwise disjoint Schema pointer sets, untouched TypeSchemas, Resolve accepts, For(*T)=For(T)+null, properties key sequence and required set equal to the harness's own enumeration of encoding/json's fields (cross-checked against json.Marshal of a fully populated value), overrides (of named pool types and of unnamed composite types occurring in T) present wherever their type occurs, no null type on non-pointer non-slice positions, descriptions equal to the jsonschema tags, error for recursive types within a deadline, error or dropping for unsupported kinds.",
     "Trusted: encoding/json for field order; the harness's own tag parser and dominance rule (checked against encoding/json on every case).")
prop("C17",
     "property-based testing (rapid): pointers generated by an own RFC 6901 escaper / RFC 3986 fragment encoder over a reflection-derived keyword table; marker acceptance vectors vs. the reference pointer walk; negative probes",
     "A host under $defs/definitions populates every subschema-bearing keyword found by reflection (single, array, map valued, items/dependencies unions) with hostile keys; 2-6 probes per document, positive ones must select exactly the addressed subschema (acceptance of every marker compared with the reference evaluator, whose walk is cross-checked against the generator's location), negative ones (unknown/absent/non-schema keyword, missing key, bad index forms, pointer stopping at a container, bad escape) must make Resolve fail.",
     MODEL_NOTE + " Open known finding false-schema-has-not-child (a pointer ending in /not below a `false` subschema resolves into Unmarshal's {\"not\":{}} rendering of it) is generated in a 5% slice only and counted.")
prop("C20",
     "property-based testing (rapid): clone-equality, pointer-disjointness and mutation-independence over reflection-generated Schema trees",
     "Schema trees with every subschema-bearing field populated (nil/empty/nested) are cloned; bytes and DeepEqual must agree, pointer sets must be disjoint, schema slices/maps must be distinct containers, a parent holding both must resolve, and after each of 1-6 generated mutations of one tree the other must still be DeepEqual to an independently built reference.",
     "Shared non-schema slices/maps are only replaced, never mutated in place (documented sharing).")

def main():
    hooks_commit = subprocess.run(["git", "-C", "/repo", "log", "--format=%H", "-1", "--", "jsonschema/export_verif.go"],
                                  capture_output=True, text=True).stdout.strip()
    checks, na = [], []
    for id in ALL:
        e = P.get(id)
        if not e or not e["built"]:
            na.append({"property_id": id, "reason": (e or {}).get("reason") or "check not built yet in this session (work in progress; see DESIGN.md section 4 for the planned check)"})
            continue
        checks.append({
            "property_id": id,
            "quick_cmd": "bin/check %s quick" % id,
            "thorough_cmd": "bin/check %s thorough" % id,
            "evidence_file": "/verif/evidence/%s.json" % id,
            "replay_cmd_template": "bin/check %s --replay {path}" % id,
            "engine": "rapid-harness",
            "level_claimed": {"category": "exploration", "text": e["text"], "design_ref": "DESIGN.md section 4, %s" % id},
            "level_note": e["note"],
            "technique": e["technique"],
        })
    m = {
        "version": 1,
        "setup_cmd": "cd /verif && sh bin/setup",
        "hooks": {
            "guard": "verif",
            "enable": "go build tag: the harness compiles its test binary with `go test -c -tags verif` against /repo (module replace => /repo); the only guarded file is jsonschema/export_verif.go",
            "baseline_off_cmd": "cd /repo && go test -vet=off -count=1 ./...",
            "source_commits": [hooks_commit] if hooks_commit else [],
            "add_only": True,
        },
        "engines": [{
            "name": "rapid-harness",
            "path": "/verif/harness",
            "serves_properties": [c["property_id"] for c in checks],
            "kind_free_text": "Go module (pgregory.net/rapid v1.3.0 + native go fuzzing) with generators, an independent reference evaluator, and one TestCxx/Replay per property; driven by bin/check (harness/cmd/check)",
        }],
        "checks": checks,
        "not_applicable": na,
        "notes": "All checks rebuild from /repo's working tree on every invocation (go build cache keyed on file contents). Exit 0 held / 1 VIOLATION / 2 INCONCLUSIVE (infrastructure or generator-health problem, never a verdict). Known findings: /verif/known_findings.json.",
    }
    json.dump(m, open("/verif/MANIFEST.json", "w"), indent=1)
    open("/verif/MANIFEST.json", "a").write("\n")

if __name__ == "__main__":
    main()
