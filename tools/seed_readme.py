#!/usr/bin/env python3
"""Regenerates seeded/README.md from every seed's meta.json and seeded/RESULTS.tsv.

The per-seed note is meta.json's verification_by_harness_author.history; the outcome column is
what tools/seed_matrix.sh last recorded (rc=1 -> caught)."""
import glob, json, os, re

root = os.path.join(os.path.dirname(os.path.abspath(__file__)), "..", "seeded")
results = {}
p = os.path.join(root, "RESULTS.tsv")
if os.path.exists(p):
    for line in open(p):
        f = line.rstrip("\n").split("\t")
        if len(f) >= 3:
            results[f[0]] = f[2]


def order(name):
    m = re.match(r"C(\d+)-(.*)", name)
    return (int(m.group(1)), m.group(2))


rows = []
for d in sorted(glob.glob(os.path.join(root, "C*-*")), key=lambda x: order(os.path.basename(x))):
    name = os.path.basename(d)
    meta = json.load(open(os.path.join(d, "meta.json")))
    summ = " ".join(meta.get("summary", "").split())
    if len(summ) > 110:
        summ = summ[:110]
    summ = summ.replace("|", "/")
    v = meta.get("verification_by_harness_author", {})
    rc = results.get(name, "")
    outcome = {"rc=1": "caught", "rc=0": "MISSED", "rc=2": "inconclusive"}.get(rc, v.get("check_result", "?"))
    if v.get("out_of_domain"):
        outcome = "not caught (out of domain)"
    rows.append((name, meta.get("property", "?"), summ, outcome, v.get("history", "").replace("|", "/")))

head = """# Seeded changes

Realistic changes to google/jsonschema-go that break a listed property while compiling and passing the existing suite. Written by independent sub-agents (three rounds; `-r2…` = second round, `-r3X…` = third round, whose brief asked for changes that need a conjunction of conditions to show) that saw only property texts and a scratch worktree; each verified by `tools/seed_verify.sh` (suite passes with the change, demo fails with it and passes without it) and run against the owning check with `tools/seed_check.sh` (apply to /repo, quick check, undo). None is ever committed to /repo. `RESULTS.tsv` is rewritten by `tools/seed_matrix.sh`, this file by `tools/seed_readme.py`.

A seed is filed under the property it breaks, which for a few third-round seeds is not the one the sub-agent was given (`property_as_given_to_agent` in meta.json keeps the label of its brief).

`benign/` holds behaviour-preserving changes (refactorings, reorderings, added caches) written the same way; `tools/benign_check.sh <dir>` runs all 20 quick checks against each and must report `alarms=0`.

| seed | property | change | quick check | note |
|---|---|---|---|---|
"""
with open(os.path.join(root, "README.md"), "w") as f:
    f.write(head)
    for r in rows:
        f.write("| %s | %s | %s | %s | %s |\n" % r)
    n = len(rows)
    caught = sum(1 for r in rows if r[3] == "caught")
    f.write("\n%d seeds, %d caught by the quick check of their property.\n" % (n, caught))
print("README.md: %d seeds" % len(rows))
