#!/bin/sh
# usage: tools/seed_check.sh <seed dir> <ID> [<ID>...]
# Applies the seeded change to /repo, runs the quick checks of the named properties, and undoes it.
d=$(cd "$1" && pwd); shift
cd /repo || exit 2
git diff --quiet || { echo "repo dirty"; exit 2; }
git apply "$d/patch.diff" || { echo "patch does not apply"; exit 2; }
for id in "$@"; do
  out=$(cd /verif && VERIF_SEED=${VERIF_SEED:-1} bin/check "$id" quick 2>&1); rc=$?
  echo "$id rc=$rc $(echo "$out" | grep -E '^(VIOLATION|INCONCLUSIVE|SUMMARY)' | head -2 | tr '\n' ' ')"
done
git -C /repo checkout -- .
find /verif/replays -type f -name '*-quick-seed*' -delete
