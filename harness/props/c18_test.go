package props

// C18 — Non-asserting and unknown keywords never change a verdict.
//
// Generator: (S, instances) from the C01/C02 generators; decorations inserted at 1-4 random
// subschema objects: every documented non-asserting keyword with a well-typed value, and
// unknown keyword names (random identifiers, letter-case variants of every standard keyword,
// names of Go struct fields) with arbitrary JSON values.
// Oracle (metamorphic): Unmarshal(decorated) succeeds; verdict(decorated, I) == verdict(S, I).

import (
	"encoding/json"
	"strings"
	"testing"

	"github.com/google/jsonschema-go/jsonschema"
	"pgregory.net/rapid"

	"verif/ev"
	"verif/jv"
	"verif/refmodel"
	"verif/sgen"
)

type c18Case struct {
	// Huge: the known-finding slice — a decoration value contains a number beyond the float64
	// range (1e999), which encoding/json cannot decode into an `any`.
	Huge bool `json:"huge_number,omitempty"`
	// BothDefs: second known-finding slice — an unreferenced entry is added under the OTHER
	// spelling of the definitions keyword ($defs beside definitions), which Resolve refuses.
	BothDefs  bool     `json:"both_defs,omitempty"`
	Draft7    bool     `json:"draft7"`
	Schema    *jv.V    `json:"schema"`
	Decorated *jv.V    `json:"decorated"`
	Added     []string `json:"added"`
	Instances []*jv.V  `json:"instances"`
}

var standardKeywords = []string{
	"$id", "$schema", "$ref", "$comment", "$defs", "definitions", "$anchor", "$dynamicAnchor", "$dynamicRef", "$vocabulary",
	"title", "description", "default", "deprecated", "readOnly", "writeOnly", "examples",
	"type", "enum", "const", "multipleOf", "minimum", "maximum", "exclusiveMinimum", "exclusiveMaximum", "minLength", "maxLength", "pattern",
	"prefixItems", "items", "minItems", "maxItems", "additionalItems", "uniqueItems", "contains", "minContains", "maxContains", "unevaluatedItems",
	"minProperties", "maxProperties", "required", "dependentRequired", "properties", "patternProperties", "additionalProperties", "propertyNames", "unevaluatedProperties",
	"allOf", "anyOf", "oneOf", "not", "if", "then", "else", "dependentSchemas", "dependencies",
	"contentEncoding", "contentMediaType", "contentSchema", "format",
}

var goFieldNames = []string{"ID", "Schema", "Ref", "Defs", "Types", "Type", "ItemsArray", "Items", "DependencySchemas", "DependencyStrings", "Extra", "PropertyOrder", "Const", "Enum", "AllOf", "Not", "Required", "Properties"}

// caseVariant returns a spelling of kw that differs from it only in letter case.
func caseVariant(t *rapid.T, kw string) string {
	var out string
	switch rapid.IntRange(0, 3).Draw(t, "casekind") {
	case 3:
		// Unicode simple case folding makes U+017F (long s) an "s" and U+212A (Kelvin sign) a "k":
		// encoding/json matches struct fields that way; for a keyword it is just another name
		if strings.ContainsAny(kw, "sSkK") {
			out = strings.NewReplacer("s", "\u017f", "S", "\u017f", "k", "\u212a", "K", "\u212a").Replace(kw)
			if rapid.Bool().Draw(t, "foldone") {
				// only the first foldable letter
				i := strings.IndexAny(kw, "sSkK")
				r := "\u017f"
				if kw[i] == 'k' || kw[i] == 'K' {
					r = "\u212a"
				}
				out = kw[:i] + r + kw[i+1:]
			}
		} else {
			out = strings.ToUpper(kw)
		}
	case 0:
		out = strings.ToUpper(kw)
	case 1:
		out = strings.ToUpper(kw[:1]) + kw[1:]
		if strings.HasPrefix(kw, "$") && len(kw) > 1 {
			out = "$" + strings.ToUpper(kw[1:2]) + kw[2:]
		}
	default:
		out = strings.ToLower(kw)
	}
	if out == kw {
		out = strings.ToUpper(kw)
	}
	if out == kw {
		return ""
	}
	return out
}

// subschemaObjects lists the object-valued subschema locations of a document (through the
// keyword structure, never through enum/const/default values).
func subschemaObjects(doc *jv.V) []*jv.V {
	var out []*jv.V
	var visit func(v *jv.V)
	visit = func(v *jv.V) {
		if v == nil || v.K != jv.Obj {
			return
		}
		out = append(out, v)
		for _, m := range v.O {
			switch m.K {
			case "properties", "patternProperties", "$defs", "definitions", "dependentSchemas", "dependencies":
				if m.V.K == jv.Obj {
					for _, mm := range m.V.O {
						visit(mm.V)
					}
				}
			case "allOf", "anyOf", "oneOf", "prefixItems":
				if m.V.K == jv.Arr {
					for _, e := range m.V.A {
						visit(e)
					}
				}
			case "items":
				if m.V.K == jv.Arr {
					for _, e := range m.V.A {
						visit(e)
					}
				} else {
					visit(m.V)
				}
			case "additionalProperties", "propertyNames", "unevaluatedProperties", "unevaluatedItems", "contains", "not", "if", "then", "else", "additionalItems", "contentSchema":
				visit(m.V)
			}
		}
	}
	visit(doc)
	return out
}

func decorate(t *rapid.T, doc *jv.V, draft7 bool) (*jv.V, []string) {
	d := doc.Clone()
	if d.K != jv.Obj {
		if d.B {
			d = jv.ObjV()
		} else {
			d = jv.ObjV(jv.Member{K: "not", V: jv.ObjV()})
		}
	}
	var added []string
	anyVal := func() *jv.V { return jv.Gen(jv.Opts{MaxDepth: 2, MaxLen: 3}).Draw(t, "decoval") }
	n := rapid.IntRange(1, 4).Draw(t, "ndeco")
	for i := 0; i < n; i++ {
		locs := subschemaObjects(d)
		loc := locs[rapid.IntRange(0, len(locs)-1).Draw(t, "loc")]
		if draft7 && loc.Has("$ref") && rapid.Bool().Draw(t, "avoidrefobj") {
			continue // siblings of $ref are ignored in draft-07 anyway: not interesting half of the time
		}
		var k string
		var v *jv.V
		switch rapid.IntRange(0, 9).Draw(t, "decokind") {
		case 0, 1, 2:
			k = rapid.SampledFrom([]string{"title", "description", "$comment", "default", "examples", "deprecated", "readOnly", "writeOnly", "format", "contentEncoding", "contentMediaType", "contentSchema", "unused-def"}).Draw(t, "nonasserting")
			switch k {
			case "title", "description", "$comment", "contentMediaType":
				v = jv.StrV(rapid.SampledFrom(jv.StrPool).Draw(t, "sv"))
			case "contentEncoding":
				v = jv.StrV(rapid.SampledFrom([]string{"base64", "7bit", "nonsense"}).Draw(t, "ce"))
			case "format":
				v = jv.StrV(rapid.SampledFrom(sgen.Formats).Draw(t, "fmt"))
			case "default":
				v = anyVal()
			case "examples":
				v = jv.ArrV(anyVal(), anyVal())
			case "deprecated", "readOnly", "writeOnly":
				v = jv.BoolV(rapid.Bool().Draw(t, "bv"))
			case "contentSchema":
				dr := refmodel.D2020
				if draft7 {
					dr = refmodel.D7
				}
				v = sgen.Sub(t, sgen.Opts{Draft: dr, NoRefs: true}, 1)
			case "unused-def":
				kw := "$defs"
				if draft7 {
					kw = "definitions"
				}
				// (never the second spelling beside the first: that is the open finding's own slice)
				if loc.Has("$defs") {
					kw = "$defs"
				} else if loc.Has("definitions") {
					kw = "definitions"
				}
				dr := refmodel.D2020
				if draft7 {
					dr = refmodel.D7
				}
				defs := loc.Get(kw)
				if defs == nil || defs.K != jv.Obj {
					defs = jv.ObjV()
					loc.Set(kw, defs)
				}
				defs.Set("zz-unused", sgen.Sub(t, sgen.Opts{Draft: dr, NoRefs: true}, 1))
				added = append(added, kw+"/zz-unused")
				continue
			}
		case 3, 4, 5, 6:
			k = caseVariant(t, rapid.SampledFrom(standardKeywords).Draw(t, "stdkw"))
			v = anyVal()
		case 7:
			k = rapid.SampledFrom(goFieldNames).Draw(t, "gofield")
			v = anyVal()
		default:
			k = rapid.StringMatching(`[a-zA-Z_][a-zA-Z0-9_-]{0,8}`).Draw(t, "ident")
			v = anyVal()
		}
		if k == "" || loc.Has(k) {
			continue
		}
		known := false
		for _, s := range standardKeywords {
			if s == k {
				known = true
			}
		}
		if known && !(k == "title" || k == "description" || k == "$comment" || k == "default" || k == "examples" || k == "deprecated" || k == "readOnly" || k == "writeOnly" || k == "format" || k == "contentEncoding" || k == "contentMediaType" || k == "contentSchema") {
			continue // a random identifier that happens to be an asserting keyword
		}
		loc.Set(k, v)
		added = append(added, k)
	}
	return d, added
}

// requiredPropertySites lists, through chains of "properties" from the root, the property
// subschemas whose name is also listed in the same schema object's "required".
type reqSite struct {
	parent *jv.V
	name   string
	path   []string // property names from the root to the parent
}

func requiredPropertySites(doc *jv.V) []reqSite {
	var out []reqSite
	var walk func(v *jv.V, path []string, depth int)
	walk = func(v *jv.V, path []string, depth int) {
		if v == nil || v.K != jv.Obj || depth > 4 {
			return
		}
		props := v.Get("properties")
		if props == nil || props.K != jv.Obj {
			return
		}
		req := v.Get("required")
		for _, m := range props.O {
			if req != nil && req.K == jv.Arr {
				for _, r := range req.A {
					if r.K == jv.Str && r.S == m.K {
						out = append(out, reqSite{v, m.K, path})
					}
				}
			}
			walk(m.V, append(append([]string{}, path...), m.K), depth+1)
		}
	}
	walk(doc, nil, 0)
	return out
}

// decorateRequiredProperty puts a non-asserting keyword on a property subschema that the
// parent requires, and returns an instance (derived from inst) that lacks exactly that property.
func decorateRequiredProperty(t *rapid.T, doc *jv.V, inst *jv.V) (string, *jv.V) {
	sites := requiredPropertySites(doc)
	if len(sites) == 0 {
		return "", nil
	}
	site := sites[rapid.IntRange(0, len(sites)-1).Draw(t, "reqsite")]
	props := site.parent.Get("properties")
	sub := props.Get(site.name)
	if sub.K != jv.Obj {
		if !sub.B {
			return "", nil
		}
		sub = jv.ObjV()
		props.Set(site.name, sub)
	}
	kw := rapid.SampledFrom([]string{"default", "default", "examples", "title", "readOnly", "deprecated", "format"}).Draw(t, "reqkw")
	if sub.Has(kw) {
		return "", nil
	}
	switch kw {
	case "default":
		sub.Set(kw, jv.Gen(jv.Opts{MaxDepth: 1}).Draw(t, "defv"))
	case "examples":
		sub.Set(kw, jv.ArrV(jv.NumV("1")))
	case "title", "format":
		sub.Set(kw, jv.StrV("email"))
	default:
		sub.Set(kw, jv.BoolV(true))
	}
	// an instance that lacks the property at that place
	out := inst.Clone()
	cur := out
	for _, k := range site.path {
		if cur.K != jv.Obj {
			return kw, nil
		}
		nx := cur.Get(k)
		if nx == nil {
			nx = jv.ObjV()
			cur.Set(k, nx)
		}
		cur = nx
	}
	if cur.K != jv.Obj {
		return kw, nil
	}
	cur.Del(site.name)
	return kw + "@required-property", out
}

func checkC18(c *c18Case, rec *ev.Recorder) *failure {
	base, deco := c.Schema.JSON(), c.Decorated.JSON()
	return guard(func() *failure {
		var s0 jsonschema.Schema
		if err := json.Unmarshal([]byte(base), &s0); err != nil {
			return failf("Unmarshal rejects the undecorated schema: %v\n%s", err, base)
		}
		rs0, err := s0.Resolve(nil)
		if err != nil {
			return failf("Resolve rejects the undecorated schema: %v\n%s", err, base)
		}
		var s1 jsonschema.Schema
		if err := json.Unmarshal([]byte(deco), &s1); err != nil {
			return failf("Unmarshal rejects a document because of non-asserting/unknown keywords %q: %v\n%s", c.Added, err, deco)
		}
		rs1, err := s1.Resolve(nil)
		if err != nil {
			return failf("Resolve rejects a document because of non-asserting/unknown keywords %q: %v\n%s", c.Added, err, deco)
		}
		for _, inst := range c.Instances {
			v0 := rs0.Validate(inst.ToAny()) == nil
			e1 := rs1.Validate(inst.ToAny())
			if rec != nil {
				rec.ClassIf(v0, "verdict:valid")
				rec.ClassIf(!v0, "verdict:invalid")
				rec.Eval(len(c.Added) > 0, []byte(deco+"\x00"+inst.Canon()), func() any {
					return map[string]any{"decorated": c.Decorated, "added": c.Added, "instance": inst, "valid": v0}
				})
			}
			if v0 != (e1 == nil) {
				return failf("keywords %q changed the verdict from accept=%v to accept=%v\n schema:    %s\n decorated: %s\n instance:  %s\n error: %v", c.Added, v0, e1 == nil, base, deco, inst.JSON(), e1)
			}
		}
		return nil
	})
}

func TestC18(t *testing.T) {
	rec := ev.For("C18")
	defer finish(rec)
	rec.Describe("case = (schema S from the C01/C02 grammar in either draft, 4 instances, decorated copy of S: 1-4 insertions at random subschema objects of title/description/$comment/default/examples/deprecated/readOnly/writeOnly/format/contentEncoding/contentMediaType/contentSchema/unreferenced $defs entries with well-typed values, or of unknown names — letter-case variants of every standard keyword, Go struct field names, random identifiers — with arbitrary JSON values). Oracle: Unmarshal and Resolve accept the decorated document and every instance gets the same verdict as under S. Non-trivial: at least one decoration was inserted. Distinct = distinct (decorated document, instance).",
		"contentSchema and unreferenced definitions are identifier-free schemas without references (they cannot introduce resolution errors of their own)")
	rapid.Check(t, watched("C18", propC18(rec)))
}

// propC18 is the property body, shared by TestC18 (rapid) and FuzzC18 (native fuzzing over
// rapid's bit stream).
func propC18(rec *ev.Recorder) func(t *rapid.T) {
	return func(t *rapid.T) {
		c := &c18Case{Draft7: rapid.IntRange(0, 3).Draw(t, "d7") == 0}
		d := refmodel.D2020
		if c.Draft7 {
			d = refmodel.D7
		}
		c.Schema = sgen.Draw(t, sgen.Opts{Draft: d, MaxDepth: 3})
		c.Instances = sgen.Instances(t, c.Schema, 4)
		if !c.Draft7 && rapid.IntRange(0, 5).Draw(t, "annotation-lens") == 0 {
			// C07's annotation-flow schemas: full of empty and boolean subschemas beside
			// unevaluated*, where a decoration turns a structurally empty schema into a non-empty one
			c7 := genC07(t)
			c.Schema = c7.Schema
			all := c07Instances(c7.Mode)
			c.Instances = nil
			for i := 0; i < 6; i++ {
				c.Instances = append(c.Instances, all[rapid.IntRange(0, len(all)-1).Draw(t, "c07inst")])
			}
			rec.Class("lens:annotation-flow(C07 generator)")
			// leave out schemas with exponentially many in-place paths (see C01): the library has no
			// memo and would take minutes
			modelCostSeen = 0
			if _, err := modelVerdicts(c.Schema, c.Instances, refmodel.VariantSpec); err != nil || modelCostSeen > 2e6 {
				rec.Class("discard:exponentially-many-in-place-paths")
				t.Skip("too many in-place paths")
			}
		}
		stripUnsafeMultipleOf(c.Schema, c.Instances)
		wantReq := rapid.IntRange(0, 2).Draw(t, "reqdeco") == 0
		if wantReq && c.Schema.K == jv.Obj && !c.Schema.Has("$ref") && len(requiredPropertySites(c.Schema)) == 0 {
			// make sure the base schema has a required property that also has a property subschema
			name := rapid.SampledFrom(jv.KeyPool).Draw(t, "reqname")
			props := c.Schema.Get("properties")
			if props == nil || props.K != jv.Obj {
				props = jv.ObjV()
				c.Schema.Set("properties", props)
			}
			if !props.Has(name) {
				props.Set(name, jv.ObjV())
			}
			req := c.Schema.Get("required")
			if req == nil || req.K != jv.Arr {
				req = &jv.V{K: jv.Arr}
				c.Schema.Set("required", req)
			}
			req.A = append(req.A, jv.StrV(name))
		}
		c.Decorated, c.Added = decorate(t, c.Schema, c.Draft7)
		if rapid.IntRange(0, 3).Draw(t, "dialect") == 0 && c.Decorated.K == jv.Obj {
			// keywords of other dialects and older drafts (OpenAPI 3.0, draft-03/04/2019-09) with the
			// values they have there: outside this vocabulary, so without any effect. Placed at the root
			// or at a property subschema, with instances that those dialects would treat differently
			// (null, a missing property) added at that place.
			type dk struct {
				k string
				v *jv.V
			}
			pool := []dk{{"nullable", jv.BoolV(true)}, {"nullable", jv.BoolV(false)}, {"x-nullable", jv.BoolV(true)}, {"optional", jv.BoolV(true)}, {"required", nil},
				{"discriminator", jv.ObjV(jv.Member{K: "propertyName", V: jv.StrV("a")})}, {"example", jv.NullV()}, {"xml", jv.ObjV()}, {"externalDocs", jv.ObjV()},
				{"id", jv.StrV("http://x.test/y.json")}, {"extends", jv.ObjV(jv.Member{K: "type", V: jv.StrV("null")})}, {"disallow", jv.StrV("null")},
				{"divisibleBy", jv.NumV("2")}, {"requires", jv.StrV("a")}, {"readonly", jv.BoolV(true)}, {"$recursiveAnchor", jv.BoolV(true)}, {"$recursiveRef", jv.StrV("#")},
				{"exclusiveMinimumDraft4", jv.BoolV(true)}, {"strict", jv.BoolV(true)}, {"coerce", jv.BoolV(true)}, {"nullable", jv.BoolV(true)}}
			e := pool[rapid.IntRange(0, len(pool)-1).Draw(t, "dialectkw")]
			site := c.Decorated
			var path []string
			if props := c.Decorated.Get("properties"); props != nil && props.K == jv.Obj && len(props.O) > 0 && rapid.Bool().Draw(t, "dialectatprop") {
				m := props.O[rapid.IntRange(0, len(props.O)-1).Draw(t, "dialectprop")]
				if m.V.K == jv.Obj {
					site, path = m.V, []string{m.K}
				}
			}
			if e.v != nil && !site.Has(e.k) && !(c.Draft7 && site.Has("$ref")) {
				site.Set(e.k, e.v)
				c.Added = append(c.Added, e.k)
				probe := jv.NullV()
				if len(path) == 1 {
					probe = jv.ObjV(jv.Member{K: path[0], V: jv.NullV()})
				}
				c.Instances = append(c.Instances, probe, jv.ObjV())
				rec.Class("decoration:keyword-of-another-dialect")
			}
		}
		if wantReq && c.Decorated.K == jv.Obj {
			// aim one decoration at a property that its parent requires, and add an instance
			// lacking exactly that property (a non-asserting keyword must not stand in for it)
			base := sgen.Satisfy(t, c.Schema, c.Schema, 3)
			if kw, inst := decorateRequiredProperty(t, c.Decorated, base); kw != "" {
				c.Added = append(c.Added, kw)
				if inst != nil {
					c.Instances = append(c.Instances, inst, base)
				}
			}
		}
		for _, a := range c.Added {
			low := false
			for _, s := range standardKeywords {
				if strings.EqualFold(s, a) && s != a {
					low = true
				}
			}
			rec.ClassIf(low, "decoration:case-variant-of-standard-keyword")
			rec.ClassIf(!low, "decoration:other")
		}
		if rapid.IntRange(0, 24).Draw(t, "huge") == 0 && c.Decorated.K == jv.Obj {
			// known-finding slice (4% of the cases): an unknown keyword or `examples` holding 1e999
			c.Huge = true
			if rapid.Bool().Draw(t, "hugekw") {
				c.Decorated.Set("x-huge", jv.ArrV(jv.NumV("1e999")))
				c.Added = append(c.Added, "x-huge")
			} else if !c.Decorated.Has("examples") {
				c.Decorated.Set("examples", jv.ArrV(jv.NumV("-1e999")))
				c.Added = append(c.Added, "examples")
			}
			rec.Class("feature:number-beyond-float64")
		}
		if !c.Huge && rapid.IntRange(0, 24).Draw(t, "bothdefs") == 0 && c.Decorated.K == jv.Obj {
			// known-finding slice (4% of the cases): the root gets an unreferenced entry under both
			// spellings of the definitions keyword
			for _, kw := range []string{"$defs", "definitions"} {
				d := c.Decorated.Get(kw)
				if d == nil || d.K != jv.Obj {
					d = jv.ObjV()
					c.Decorated.Set(kw, d)
				}
				if !d.Has("zz-unused-too") {
					d.Set("zz-unused-too", jv.ObjV(jv.Member{K: "type", V: jv.StrV("string")}))
				}
			}
			c.BothDefs = true
			c.Added = append(c.Added, "$defs+definitions")
			rec.Class("feature:both-definitions-keywords")
		}
		fl := checkC18(c, rec)
		if fl != nil && c.BothDefs && knownOpen("defs-and-definitions-exclusive") && strings.Contains(fl.Msg, "both Defs and Definitions are set") {
			rec.Known("defs-and-definitions-exclusive", "a schema object holding both $defs and definitions is refused by Resolve (and by Marshal), although unreferenced entries of either keyword are documented as non-asserting")
			rec.Case()
			return
		}
		if fl != nil {
			if c.Huge && knownOpen("number-beyond-float64-refused") && strings.HasPrefix(fl.Msg, "Unmarshal rejects a document because of") && strings.Contains(c.Decorated.JSON(), "1e999") {
				rec.Known("number-beyond-float64-refused", "a number beyond the float64 range (1e999) inside an unknown keyword or `examples` makes Unmarshal fail")
				rec.Case()
				return
			}
			report(t, rec, c, fl)
		}
		rec.Case()
	}
}

func init() {
	replayers["C18"] = func(raw json.RawMessage) *failure {
		var c c18Case
		if err := json.Unmarshal(raw, &c); err != nil {
			return failf("REPLAY-HARNESS-ERROR: %v", err)
		}
		fixNils(c.Instances)
		return checkC18(&c, nil)
	}
}
