package props

// C06 — $dynamicRef follows the dynamic scope exactly as specified.
//
// Generator: 1-5 resources (the root document R0 plus R1..R4, each embedded under the root's
// $defs or supplied by the Loader), each independently declaring $dynamicAnchor N, $anchor N
// or nothing (at its root or on a detached $defs child), every declaring subschema marked by
// a distinct const. Entry paths visit a random sequence of resources through in-place
// $ref / pointer-form $dynamicRef / allOf hops that enter each resource at a non-root
// subschema ("detached"), and end in a $dynamicRef in fragment (#N), resource-relative
// (Ui#N) or pointer form. Histories: one Resolved, 2-10 Validate calls whose instances select
// one or two paths each.
// Oracle: refmodel's explicit dynamic scope per call; and history invariance (same verdict on
// a freshly resolved copy).

import (
	"encoding/json"
	"fmt"
	"strings"
	"testing"

	"github.com/google/jsonschema-go/jsonschema"
	"pgregory.net/rapid"

	"verif/ev"
	"verif/jv"
	"verif/refmodel"
)

type c06Case struct {
	Root    *jv.V            `json:"root"`
	Docs    map[string]*jv.V `json:"docs"`
	Calls   []*jv.V          `json:"calls"`
	Paths   []c06Path        `json:"paths"`
	Markers []string         `json:"markers"`
	Combos  []string         `json:"combos,omitempty"`
}

type c06Path struct {
	Resources []int    `json:"resources"` // indexes of the resources visited after the root
	Final     string   `json:"final"`     // text of the final $dynamicRef
	FinalKind string   `json:"final_kind"`
	Hops      []string `json:"hops"`
}

type c06res struct {
	uri      string
	embedded bool
	decl     string // "dynamic" | "plain" | ""
	atRoot   bool   // declaration on the resource root (else on $defs.n)
	marker   string
	v        *jv.V
}

const c06RootURI = "http://d.test/r0.json"

func genC06(t *rapid.T) *c06Case {
	n := func(k int, l string) int { return rapid.IntRange(0, k-1).Draw(t, l) }
	nres := 1 + n(5, "nres")
	res := make([]*c06res, nres)
	c := &c06Case{Docs: map[string]*jv.V{}}
	for i := range res {
		r := &c06res{uri: fmt.Sprintf("http://d.test/r%d.json", i)}
		if i > 0 {
			r.embedded = n(2, "embedded") == 0
		}
		switch k := n(6, "decl"); {
		case i == 0 && k < 4:
			r.decl = "" // a declaring root document always wins; keep that the minority
		case k < 4:
			r.decl = "dynamic"
		case k == 4:
			r.decl = "plain"
		}
		r.atRoot = n(3, "atroot") == 0
		if i == 0 {
			r.atRoot = false // the root document's root must accept every routing instance
		}
		if r.decl != "" {
			r.marker = fmt.Sprintf("m%d", i)
			c.Markers = append(c.Markers, r.marker)
		}
		v := jv.ObjV(jv.Member{K: "$id", V: jv.StrV(r.uri)})
		declare := func(s *jv.V) {
			kw := "$dynamicAnchor"
			if r.decl == "plain" {
				kw = "$anchor"
			}
			s.Set(kw, jv.StrV("N"))
			s.Set("const", jv.StrV(r.marker))
		}
		defs := jv.ObjV()
		if r.decl != "" {
			if r.atRoot {
				declare(v)
			} else {
				d := jv.ObjV()
				declare(d)
				defs.Set("n", d)
			}
		}
		if !defs.Has("n") && n(2, "plain-n") == 0 {
			// an undeclared $defs.n, target of pointer-form references
			mk := fmt.Sprintf("u%d", i)
			c.Markers = append(c.Markers, mk)
			defs.Set("n", jv.ObjV(jv.Member{K: "const", V: jv.StrV(mk)}))
		}
		v.Set("$defs", defs)
		r.v = v
		res[i] = r
	}
	anyDecl := false
	for _, r := range res {
		if r.decl != "" {
			anyDecl = true
		}
	}
	if !anyDecl {
		r := res[len(res)-1]
		r.decl, r.atRoot, r.marker = "dynamic", false, fmt.Sprintf("m%d", len(res)-1)
		c.Markers = append(c.Markers, r.marker)
		d := jv.ObjV(jv.Member{K: "$dynamicAnchor", V: jv.StrV("N")}, jv.Member{K: "const", V: jv.StrV(r.marker)})
		r.v.Get("$defs").Set("n", d)
	}
	// paths
	npaths := 1 + n(4, "npaths")
	props := jv.ObjV()
	var chains [][]int       // chain (resource index per hop position) of every path laid down so far
	var chainHops [][]string // the $defs name of the hop at every position of that chain
	for p := 0; p < npaths; p++ {
		var path c06Path
		L := n(5, "pathlen")
		cur := 0
		// sequence of resources (may revisit)
		// restriction (a) of DESIGN.md 3.5: a Loader document cannot name a resource embedded in
		// another document, so from a Loader document only Loader documents and the root are reachable
		reach := func(from int) []int {
			var out []int
			for j, r := range res {
				if j == 0 || !r.embedded || from == 0 || res[from].embedded {
					out = append(out, j)
				}
			}
			return out
		}
		seq := []int{}
		at := 0
		for i := 0; i < L; i++ {
			rs := reach(at)
			at = rs[n(len(rs), "visit")]
			seq = append(seq, at)
		}
		path.Resources = seq
		hopName := func(pos int) string { return fmt.Sprintf("h%d_%d", p, pos) }
		// A path may JOIN an earlier path: after its own prefix it jumps into hop j of path q, so
		// that the very same $dynamicRef schema object is reached under different dynamic scopes
		// (from different calls on one Resolved, or from sibling properties of one instance).
		if len(chains) > 0 && n(2, "join") == 0 {
			q := n(len(chains), "joinpath")
			j := n(len(chains[q]), "joinpos")
			ok := false
			for _, r := range reach(at) {
				if r == chains[q][j] {
					ok = true
				}
			}
			if ok {
				own := append([]int{0}, seq...)
				for pos := 0; pos < len(own); pos++ {
					holder := res[own[pos]].v.Get("$defs")
					var target string
					if pos == len(own)-1 {
						target = res[chains[q][j]].uri + "#/$defs/" + chainHops[q][j]
					} else {
						target = res[own[pos+1]].uri + "#/$defs/" + hopName(pos+1)
					}
					holder.Set(hopName(pos), jv.ObjV(jv.Member{K: "$ref", V: jv.StrV(target)}))
					path.Hops = append(path.Hops, "$ref")
				}
				path.Hops = append(path.Hops, fmt.Sprintf("joins:path%d@%d", q, j))
				path.Final, path.FinalKind = c.Paths[q].Final, "joined:"+c.Paths[q].FinalKind
				props.Set(fmt.Sprintf("p%d", p), jv.ObjV(jv.Member{K: "$ref", V: jv.StrV("#/$defs/" + hopName(0))}))
				c.Paths = append(c.Paths, path)
				var ownHops []string
				for pos := range own {
					ownHops = append(ownHops, hopName(pos))
				}
				chains = append(chains, append(own, chains[q][j:]...))
				chainHops = append(chainHops, append(ownHops, chainHops[q][j:]...))
				continue
			}
		}
		// the final reference lives in the last visited resource (or the root)
		chain := append([]int{0}, seq...)
		last := chain[len(chain)-1]
		// choose the final $dynamicRef
		var final, kind string
		var cands [][2]string
		if res[last].decl != "" {
			cands = append(cands, [2]string{"#N", "fragment"})
		}
		for _, j := range reach(last) {
			if r := res[j]; r.decl != "" {
				cands = append(cands, [2]string{r.uri + "#N", "resource-relative"})
			}
		}
		if len(cands) == 0 {
			// nothing nameable from here declares N: end in a plain pointer to a fresh leaf
			mk := fmt.Sprintf("x%d", p)
			c.Markers = append(c.Markers, mk)
			res[last].v.Get("$defs").Set(fmt.Sprintf("leaf%d", p), jv.ObjV(jv.Member{K: "const", V: jv.StrV(mk)}))
			cands = append(cands, [2]string{fmt.Sprintf("#/$defs/leaf%d", p), "pointer"})
		}
		if res[last].v.Get("$defs").Has("n") {
			cands = append(cands, [2]string{"#/$defs/n", "pointer"})
		}
		pick := cands[n(len(cands), "final")]
		final, kind = pick[0], pick[1]
		if strings.HasSuffix(final, "#N") && n(4, "pctfragment") == 0 {
			// the same reference with its fragment percent-encoded (an equivalent URI reference)
			final = strings.TrimSuffix(final, "N") + []string{"%4E", "%4e"}[n(2, "pcthex")]
			kind += "/percent-encoded"
		}
		path.Final, path.FinalKind = final, kind
		// lay down the hops
		for pos := 0; pos < len(chain); pos++ {
			holder := res[chain[pos]].v.Get("$defs")
			var hop *jv.V
			if pos == len(chain)-1 {
				hop = jv.ObjV(jv.Member{K: "$dynamicRef", V: jv.StrV(final)})
				path.Hops = append(path.Hops, "final:"+kind)
			} else {
				next := res[chain[pos+1]]
				target := next.uri + "#/$defs/" + hopName(pos+1)
				if chain[pos+1] == chain[pos] && n(2, "localhop") == 0 {
					target = "#/$defs/" + hopName(pos+1)
				}
				switch n(5, "hopkind") {
				case 4:
					// both keywords in one object: each is applied; the $dynamicRef (a pointer, hence
					// lexical) goes to a schema of this resource that accepts everything
					if !holder.Has("anything") {
						holder.Set("anything", jv.ObjV())
					}
					hop = jv.ObjV(jv.Member{K: "$dynamicRef", V: jv.StrV("#/$defs/anything")}, jv.Member{K: "$ref", V: jv.StrV(target)})
					path.Hops = append(path.Hops, "$ref+$dynamicRef")
				case 0:
					hop = jv.ObjV(jv.Member{K: "$dynamicRef", V: jv.StrV(target)})
					path.Hops = append(path.Hops, "$dynamicRef(pointer)")
				case 1:
					hop = jv.ObjV(jv.Member{K: "allOf", V: jv.ArrV(jv.ObjV(jv.Member{K: "$ref", V: jv.StrV(target)}))})
					path.Hops = append(path.Hops, "allOf/$ref")
				default:
					hop = jv.ObjV(jv.Member{K: "$ref", V: jv.StrV(target)})
					path.Hops = append(path.Hops, "$ref")
				}
			}
			holder.Set(hopName(pos), hop)
		}
		_ = cur
		props.Set(fmt.Sprintf("p%d", p), jv.ObjV(jv.Member{K: "$ref", V: jv.StrV("#/$defs/" + hopName(0))}))
		c.Paths = append(c.Paths, path)
		chains = append(chains, chain)
		var hops []string
		for pos := range chain {
			hops = append(hops, hopName(pos))
		}
		chainHops = append(chainHops, hops)
	}
	// combination properties: within ONE call a failing branch that entered some resources is
	// followed by another branch (anyOf/oneOf/if/not tolerate the failure), so scope entries of a
	// failed branch must have been removed again
	if npaths >= 2 {
		for k, nk := 0, n(3, "ncombos"); k < nk; k++ {
			a, b := n(npaths, "comboA"), n(npaths, "comboB")
			ra := jv.ObjV(jv.Member{K: "$ref", V: jv.StrV(fmt.Sprintf("#/$defs/h%d_0", a))})
			rb := jv.ObjV(jv.Member{K: "$ref", V: jv.StrV(fmt.Sprintf("#/$defs/h%d_0", b))})
			var combo *jv.V
			switch n(4, "combokind") {
			case 0:
				combo = jv.ObjV(jv.Member{K: "anyOf", V: jv.ArrV(ra, rb)})
			case 1:
				combo = jv.ObjV(jv.Member{K: "oneOf", V: jv.ArrV(ra, rb)})
			case 2:
				combo = jv.ObjV(jv.Member{K: "if", V: ra}, jv.Member{K: "then", V: jv.BoolV(true)}, jv.Member{K: "else", V: rb})
			default:
				combo = jv.ObjV(jv.Member{K: "allOf", V: jv.ArrV(jv.ObjV(jv.Member{K: "not", V: ra}), rb)})
			}
			props.Set(fmt.Sprintf("c%d", k), combo)
			c.Combos = append(c.Combos, fmt.Sprintf("c%d", k))
		}
	}
	root := res[0].v
	root.Set("properties", props)
	for i := 1; i < nres; i++ {
		if res[i].embedded {
			root.Get("$defs").Set(fmt.Sprintf("r%d", i), res[i].v)
		} else {
			c.Docs[res[i].uri] = res[i].v
		}
	}
	c.Root = root
	// calls
	ncalls := 2 + n(9, "ncalls")
	for k := 0; k < ncalls; k++ {
		inst := jv.ObjV()
		for j, np := 0, 1+n(2, "npathsincall"); j < np; j++ {
			p := n(npaths, "callpath")
			key := fmt.Sprintf("p%d", p)
			if len(c.Combos) > 0 && n(2, "usecombo") == 0 {
				key = c.Combos[n(len(c.Combos), "combo")]
			}
			if !inst.Has(key) {
				inst.Set(key, jv.StrV(rapid.SampledFrom(c.Markers).Draw(t, "marker")))
			}
		}
		c.Calls = append(c.Calls, inst)
	}
	return c
}

func checkC06(c *c06Case, rec *ev.Recorder) *failure {
	m, err := refmodel.New(&refmodel.Universe{Root: c.Root, RootURI: c06RootURI, Docs: c.Docs}, refmodel.D2020)
	if err != nil {
		return failf("HARNESS: model cannot index: %v", err)
	}
	if err := m.ResolveEverything(); err != nil {
		return failf("HARNESS: generated topology has a dangling reference: %v\n%s", err, c.Root.JSON())
	}
	text := c.Root.JSON()
	describe := func() string { return fmt.Sprintf(" root: %s\n docs: %s", text, mustJSON(c.Docs)) }
	return guard(func() *failure {
		mk := func() (*jsonschema.Resolved, error) {
			var s jsonschema.Schema
			if err := json.Unmarshal([]byte(text), &s); err != nil {
				return nil, err
			}
			return s.Resolve(&jsonschema.ResolveOptions{BaseURI: c06RootURI, Loader: loaderFor(c.Docs, nil)})
		}
		shared, err := mk()
		if err != nil {
			return failf("Resolve rejects a well-formed $dynamicRef topology: %v\n%s", err, describe())
		}
		for i, inst := range c.Calls {
			// how many resources on the evaluation path declare the dynamic anchor?
			declaring := map[*refmodel.Node]bool{}
			m.Trace = func(n *refmodel.Node) {
				r := n.Resource
				if r.V.K == jv.Obj {
					has := false
					var scan func(v *jv.V, top bool)
					scan = func(v *jv.V, top bool) {
						if v.K != jv.Obj || (!top && v.Has("$id")) {
							return
						}
						if v.Has("$dynamicAnchor") {
							has = true
						}
						if d := v.Get("$defs"); d != nil {
							for _, mm := range d.O {
								scan(mm.V, false)
							}
						}
					}
					scan(r.V, true)
					if has {
						declaring[r] = true
					}
				}
			}
			want, err := m.Validate(inst)
			m.Trace = nil
			if err != nil {
				return failf("HARNESS: model error: %v", err)
			}
			got := shared.Validate(inst.ToAny())
			if rec != nil {
				rec.Class(fmt.Sprintf("declaring-resources-in-scope:%d", len(declaring)))
				rec.ClassIf(want, "verdict:valid")
				rec.ClassIf(!want, "verdict:invalid")
				rec.Eval(len(declaring) >= 2 || len(declaring) == 0, []byte(text+mustJSON(c.Docs)+inst.Canon()), func() any {
					return map[string]any{"root": c.Root, "docs": c.Docs, "instance": inst, "valid": want, "paths": c.Paths, "declaring_resources_in_scope": len(declaring)}
				})
			}
			if (got == nil) != want {
				return failf("call %d: library accepts=%v, the dynamic-scope rule says valid=%v\n instance: %s\n paths: %s\n%s\n error: %v", i, got == nil, want, inst.JSON(), mustJSON(c.Paths), describe(), got)
			}
			fresh, err := mk()
			if err != nil {
				return failf("second Resolve of the same document fails: %v", err)
			}
			if fgot := fresh.Validate(inst.ToAny()); (fgot == nil) != (got == nil) {
				return failf("call %d on the reused Resolved accepts=%v but a freshly resolved copy accepts=%v (state leaks between calls)\n instance: %s\n%s", i, got == nil, fgot == nil, inst.JSON(), describe())
			}
		}
		return nil
	})
}

func TestC06(t *testing.T) {
	rec := ev.For("C06")
	defer finish(rec)
	if n, mm, err := runModelOnSuite(); err != nil || len(mm) > 0 || n < 1500 {
		rec.Inconclusive("model-invalid: reference model does not reproduce the official suite")
		t.Fatalf("reference model invalid: %v %v", err, mm)
	}
	rec.Describe("case = a dynamic-scope topology (1-5 resources, embedded or Loader-supplied, each with $dynamicAnchor N / $anchor N / nothing at its root or on a detached $defs child, distinct const markers) with 1-4 entry paths that visit 0-3 further resources in random order (revisits allowed) through $ref / pointer-form $dynamicRef / allOf hops entering each resource at a non-root subschema, ending in a $dynamicRef in fragment, resource-relative or pointer form; history = 2-10 Validate calls on one Resolved, each instance selecting 1-2 paths and a marker. Oracle: reference evaluator with explicit dynamic scope (outermost declaring resource wins; non-dynamic initial target behaves like $ref) per call, and the same verdict from a freshly resolved copy. Non-trivial: >=2 resources on the evaluation path declare the dynamic anchor (outermost != innermost != lexical) or none does (must behave as $ref). Distinct = distinct (topology, instance).",
		"hops are in-place and acyclic by construction (distinct hop definitions per path position)",
		"the anchor name is the same (N) in every resource: scoping, not naming, is under test")
	rapid.Check(t, watched("C06", propC06(rec)))
}

// propC06 is the property body, shared by TestC06 (rapid) and FuzzC06 (native fuzzing over
// rapid's bit stream).
func propC06(rec *ev.Recorder) func(t *rapid.T) {
	return func(t *rapid.T) {
		c := genC06(t)
		for _, p := range c.Paths {
			rec.Class("final:" + p.FinalKind)
			rec.Class(fmt.Sprintf("path-length:%d", len(p.Resources)))
		}
		rec.Class(fmt.Sprintf("loader-documents:%d", len(c.Docs)))
		fl := checkC06(c, rec)
		if isHarnessFailure(fl) {
			rec.Inconclusive("generator-or-model-error: " + fl.Msg)
			rec.Flush()
			t.Fatalf("%s", fl.Msg)
		}
		if fl != nil {
			report(t, rec, c, fl)
		}
		rec.Case()
	}
}

func init() {
	replayers["C06"] = func(raw json.RawMessage) *failure {
		var c c06Case
		if err := json.Unmarshal(raw, &c); err != nil {
			return failf("REPLAY-HARNESS-ERROR: %v", err)
		}
		fixNils(c.Calls)
		fl := checkC06(&c, nil)
		if isHarnessFailure(fl) {
			return failf("REPLAY-HARNESS-ERROR: %s", fl.Msg)
		}
		return fl
	}
}
