package props

// C03 — Every $ref reaches the subschema the specification designates.
//
// Generator: ugen universes (1-4 documents, $id trees, scoped anchors, every reference
// spelling, BaseURI empty/absolute, Loader nil/present, loader faults), plus planted dangling
// references. Oracle: (1) for routing instances, the library verdict equals the reference
// evaluator's (own RFC 3986/6901 code; cross-checked against the generator's intended target);
// (2) a reference that designates nothing, or whose document cannot be loaded, makes Resolve
// return an error (no panic, no success); (3) loader log: no URI requested twice, nothing
// requested that no reference names, every document on an evaluated route was requested;
// (4) cyclic universes terminate.

import (
	"encoding/json"
	"fmt"
	"net/url"
	"slices"
	"sort"
	"strings"
	"testing"
	"time"

	"github.com/google/jsonschema-go/jsonschema"
	"pgregory.net/rapid"

	"verif/ev"
	"verif/jv"
	"verif/refmodel"
	"verif/ugen"
)

type c03Case struct {
	U *ugen.Universe `json:"universe"`
	// Dangling: when set, one extra reference that designates nothing is planted at the root
	// under property "zz" (the expectation is then: Resolve errors).
	Dangling    string `json:"dangling,omitempty"`
	DanglingWhy string `json:"dangling_why,omitempty"`
	// DanglingAt: the $defs names leading from the root to the subschema that gets the planted
	// reference (empty = the root itself).
	DanglingAt []string `json:"dangling_at,omitempty"`
}

func relinkAliases(u *ugen.Universe) {
	for a, p := range u.Alias {
		if d, ok := u.Docs[p]; ok {
			u.Docs[a] = d
		}
	}
}

func faultSet(u *ugen.Universe) map[string]bool {
	f := map[string]bool{}
	for _, x := range u.Faults {
		f[x] = true
	}
	return f
}

// loggingLoader serves u.Docs, failing on u.Faults, and records every request.
func loggingLoader(u *ugen.Universe, log *[]string) jsonschema.Loader {
	faults := faultSet(u)
	return func(x *url.URL) (*jsonschema.Schema, error) {
		s := x.String()
		*log = append(*log, s)
		if faults[s] {
			return nil, fmt.Errorf("injected loader fault for %s", s)
		}
		d, ok := u.Docs[s]
		if !ok {
			return nil, fmt.Errorf("no such document %s", s)
		}
		var sc jsonschema.Schema
		if err := json.Unmarshal([]byte(d.JSON()), &sc); err != nil {
			return nil, err
		}
		return &sc, nil
	}
}

// withDeadline runs f and reports a hang.
func withDeadline(d time.Duration, f func() *failure) (fl *failure, hung bool) {
	done := make(chan *failure, 1)
	go func() { done <- guard(f) }()
	select {
	case fl := <-done:
		return fl, false
	case <-time.After(d):
		return nil, true
	}
}

func (c *c03Case) root() *jv.V {
	if c.Dangling == "" {
		return c.U.Root
	}
	r := c.U.Root.Clone()
	site := r
	for _, name := range c.DanglingAt {
		d := site.Get("$defs")
		if d == nil || d.Get(name) == nil || d.Get(name).K != jv.Obj {
			site = r
			break
		}
		site = d.Get(name)
	}
	p := site.Get("properties")
	if p == nil {
		p = jv.ObjV()
		site.Set("properties", p)
	}
	p.Set("zz", jv.ObjV(jv.Member{K: "$ref", V: jv.StrV(c.Dangling)}))
	return r
}

func checkC03(c *c03Case, rec *ev.Recorder) *failure {
	u := c.U
	relinkAliases(u)
	root := c.root()
	faults := faultSet(u)
	mu := &refmodel.Universe{Root: root, RootURI: u.BaseURI, Docs: u.Docs}
	if u.LoaderNil {
		mu.Docs = nil
	}
	m, err := refmodel.New(mu, refmodel.D2020)
	if err != nil {
		return failf("HARNESS: model cannot index the root: %v", err)
	}
	m.CanLoad = func(uri string) bool { return !faults[uri] }
	modelErr := m.ResolveEverything()
	if c.Dangling == "" && len(u.Faults) == 0 && !u.LoaderNil && modelErr != nil {
		return failf("HARNESS: generator produced a universe the model cannot resolve: %v\n root: %s", modelErr, mustJSON(u))
	}
	// the set of URIs that some reference names (closure computed by the model)
	named := m.NamedURIs()
	text := root.JSON()
	var log []string
	var rs *jsonschema.Resolved
	var rerr error
	fl, hung := withDeadline(60*time.Second, func() *failure {
		var s jsonschema.Schema
		if err := json.Unmarshal([]byte(text), &s); err != nil {
			return failf("Unmarshal rejects a well-formed document: %v\n%s", err, text)
		}
		opts := &jsonschema.ResolveOptions{BaseURI: u.BaseURI}
		if !u.LoaderNil {
			opts.Loader = loggingLoader(u, &log)
		}
		rs, rerr = s.Resolve(opts)
		return nil
	})
	if hung {
		return failf("Resolve did not return within 60s (reference cycle not terminated?)\n root: %s\n docs: %s", text, mustJSON(u.Docs))
	}
	if fl != nil {
		return failf("Resolve panics\n root: %s\n docs: %s\n%s", text, mustJSON(u.Docs), fl.Msg)
	}
	describe := func() string {
		return fmt.Sprintf(" base: %q loader-nil: %v faults: %q\n root: %s\n docs: %s", u.BaseURI, u.LoaderNil, u.Faults, text, mustJSON(u.Docs))
	}
	// (3a) no URI requested twice
	seen := map[string]bool{}
	for _, l := range log {
		if seen[l] {
			return failf("the Loader was asked twice for %s (log %q)\n%s", l, log, describe())
		}
		seen[l] = true
	}
	if modelErr != nil {
		// (2) something designates nothing / cannot be loaded
		if rec != nil {
			why := "loader-fault-or-nil-loader"
			if c.Dangling != "" {
				why = "dangling:" + c.DanglingWhy
			}
			rec.Class("expect-error:" + why)
			rec.Eval(true, []byte(text+mustJSON(u.Docs)+strings.Join(u.Faults, ",")), func() any {
				return map[string]any{"expect": "Resolve error", "why": why, "model_error": modelErr.Error(), "root": root, "docs": u.Docs, "faults": u.Faults, "loader_nil": u.LoaderNil}
			})
		}
		if rerr == nil {
			return failf("Resolve succeeds although a reference designates nothing or its document cannot be loaded: %v\n%s", modelErr, describe())
		}
		return nil
	}
	if rerr != nil {
		return failf("Resolve fails although every reference designates a subschema: %v\n%s", rerr, describe())
	}
	// (3b) nothing fetched that no reference names
	for _, l := range log {
		if !named[l] {
			return failf("the Loader was asked for %s, which no reference names (model closure %q)\n%s", l, m.Loads, describe())
		}
	}
	// (1) routing instances
	for _, r := range u.Routes {
		markers := []string{r.Intended}
		for i, mk := range u.Markers {
			if mk != r.Intended && (i%5 == len(r.Path)%5 || len(u.Markers) <= 4) {
				markers = append(markers, mk)
			}
		}
		for _, mk := range markers {
			inst := ugen.Instance(r.Path, mk)
			visited := map[string]bool{}
			m.Trace = func(n *refmodel.Node) { visited[n.DocURI] = true }
			want, err := m.Validate(inst)
			m.Trace = nil
			if err != nil {
				return failf("HARNESS: model error on route %v: %v", r.Path, err)
			}
			if mk == r.Intended && !want {
				return failf("HARNESS: model rejects the intended marker %s on route %v (kinds %v)\n%s", mk, r.Path, r.Kinds, describe())
			}
			var got error
			if f := guard(func() *failure { got = rs.Validate(inst.ToAny()); return nil }); f != nil {
				return failf("Validate panics on route %v\n%s\n%s", r.Path, describe(), f.Msg)
			}
			if rec != nil {
				nonlocal := false
				for _, k := range r.Kinds {
					rec.Class("spelling:" + k)
					if !strings.HasSuffix(k, "/pointer/fragment-only") {
						nonlocal = true
					}
				}
				rec.ClassIf(len(visited) > 1, "route-crosses-documents")
				rec.Eval(nonlocal, []byte(text+mustJSON(u.Docs)+inst.Canon()), func() any {
					return map[string]any{"route": r, "marker": mk, "accepted": want, "base_uri": u.BaseURI, "root": root, "docs": u.Docs}
				})
			}
			if (got == nil) != want {
				return failf("route %v (spellings %v): marker %s accepted=%v, the designated target says %v\n%s\n error: %v", r.Path, r.Kinds, mk, got == nil, want, describe(), got)
			}
			// (3c) every document on the evaluated route was requested
			for d := range visited {
				if d == u.BaseURI || d == "" {
					continue
				}
				ok := seen[d]
				for a, p := range u.Alias { // reached under another of its URIs
					if (p == d && seen[a]) || (a == d && seen[p]) {
						ok = true
					}
				}
				if !ok {
					return failf("evaluation passes through document %s but the Loader was never asked for it (log %q)\n%s", d, log, describe())
				}
			}
		}
	}
	return nil
}

// plantDangling chooses a reference that designates nothing in universe u.
func plantDangling(t *rapid.T, u *ugen.Universe) (string, string, []string) {
	type d struct {
		ref, why string
		at       []string
	}
	cands := []d{
		{"#no-such-anchor", "absent anchor", nil},
		{"#/$defs/nope", "pointer to nowhere", nil},
		{"#/properties/zz/nope", "pointer to nowhere", nil},
	}
	if u.BaseURI != "" {
		cands = append(cands, d{"missing-document.json", "unknown document", nil}, d{"http://nowhere.test/x.json#foo", "unknown document", nil})
	} else {
		cands = append(cands, d{"http://nowhere.test/x.json", "unknown document", nil})
	}
	flipCase := func(uri string) string {
		// flip the case of the last path letter: paths are case-sensitive, so this is another URI
		b := []byte(uri)
		for i := len(b) - 1; i >= 0 && b[i] != '/'; i-- {
			if b[i] >= 'a' && b[i] <= 'z' {
				b[i] -= 32
				return string(b)
			}
			if b[i] >= 'A' && b[i] <= 'Z' {
				b[i] += 32
				return string(b)
			}
		}
		return ""
	}
	for _, k := range sortedKeys(u.Docs) {
		if f := flipCase(k); f != "" && u.Docs[f] == nil {
			cands = append(cands, d{f, "URI of a document with the case of one path letter changed", nil})
		}
		cands = append(cands, d{k + "#definitely-not-an-anchor", "absent anchor in remote document", nil}, d{k + "#/$defs/nope/x", "pointer to nowhere in remote document", nil})
		// an anchor that exists only inside an embedded resource of that document must not be
		// visible from the document's root resource
		doc := u.Docs[k]
		if defs := doc.Get("$defs"); defs != nil {
			for _, m := range defs.O {
				if m.V.Has("$id") {
					if a := m.V.Get("$anchor"); a != nil && (doc.Get("$anchor") == nil || doc.Get("$anchor").S != a.S) {
						clash := false
						// make sure the root resource itself does not declare the same name anywhere outside embedded resources
						var scan func(v *jv.V, top bool)
						scan = func(v *jv.V, top bool) {
							if v.K != jv.Obj || (!top && v.Has("$id")) {
								return
							}
							if x := v.Get("$anchor"); x != nil && x.S == a.S {
								clash = true
							}
							if dd := v.Get("$defs"); dd != nil {
								for _, mm := range dd.O {
									scan(mm.V, false)
								}
							}
						}
						scan(doc, true)
						if !clash {
							cands = append(cands, d{k + "#" + a.S, "anchor of another (embedded) resource", nil})
						}
					}
				}
			}
		}
	}
	// inside an embedded resource of the root document, a pointer that is valid from the document
	// root but not from the resource root it is relative to (whether it designates something there
	// is left to the model)
	type loc struct {
		path []string
		v    *jv.V
	}
	var all, resources []loc
	var walk func(v *jv.V, path []string)
	walk = func(v *jv.V, path []string) {
		if v.K != jv.Obj {
			return
		}
		all = append(all, loc{path, v})
		if len(path) > 0 && v.Has("$id") {
			resources = append(resources, loc{path, v})
		}
		if dd := v.Get("$defs"); dd != nil && dd.K == jv.Obj {
			for _, m := range dd.O {
				walk(m.V, append(append([]string{}, path...), m.K))
			}
		}
	}
	walk(u.Root, nil)
	for _, r := range resources {
		for _, n := range all {
			if len(n.path) == 0 {
				continue
			}
			cands = append(cands, d{"#/$defs/" + strings.Join(n.path, "/$defs/"), "pointer relative to the document root used inside an embedded resource", r.path})
		}
	}
	x := cands[rapid.IntRange(0, len(cands)-1).Draw(t, "dangling")]
	return x.ref, x.why, x.at
}

func TestC03(t *testing.T) {
	rec := ev.For("C03")
	defer finish(rec)
	if n, mm, err := runModelOnSuite(); err != nil || len(mm) > 0 || n < 1500 {
		rec.Inconclusive("model-invalid: reference model does not reproduce the official suite")
		t.Fatalf("reference model invalid: %v %v", err, mm)
	}
	rec.Describe("case = a URI universe: root + 0-3 Loader documents, each a tree (depth<=2) of nodes of which ~40% are embedded resources ($id absolute, relative, ../, ./, /abs-path, urn:), anchors foo/bar/A1 unique per resource but shared across resources, document-root $id equal to / different from (alias) / relative to the retrieval URI; every node holds 0-2 references whose TARGET is chosen first (any node of any document: chains, diamonds, cycles through `properties`) and whose SPELLING second ('#', '#/ptr', '#anchor', rel, rel#anchor, rel#/ptr, absolute, /abs-path, //network-path, ./ and zz/../ dot segments, canonical-id vs retrieval-URI alias); BaseURI empty (25%) or absolute; Loader nil (20%); loader faults on a random subset (20%); a planted dangling reference (20%). Probes: 2-5 routes of 1-4 hops x (intended marker + other markers). Oracle: reference evaluator verdicts; Resolve error iff the model finds a dangling/unloadable reference; loader-log invariants. Non-trivial: the route uses a spelling other than a same-resource '#/pointer' (base-URI inheritance, anchor scoping, a loader or an alias is involved), and every expect-error case. Distinct = distinct (universe, instance).",
		"restrictions (a)-(g) of DESIGN.md section 3.5: no cross-document reference to a resource embedded in another document; loaded documents served at retrieval URI and canonical $id; base-less roots use only fragment-only/absolute references; no duplicate anchors; no pointer across a resource boundary; nothing relative under urn:; single draft",
		"eager versus lazy loading of documents named only by unreachable subschemas is not asserted")
	rapid.Check(t, watched("C03", propC03(rec)))
}

// propC03 is the property body, shared by TestC03 (rapid) and FuzzC03 (native fuzzing over
// rapid's bit stream).
func propC03(rec *ev.Recorder) func(t *rapid.T) {
	return func(t *rapid.T) {
		c := &c03Case{U: ugen.Gen(t)}
		u := c.U
		if !u.LoaderNil && len(u.Docs) > 0 && rapid.IntRange(0, 4).Draw(t, "faults") == 0 {
			// a fault hits a document under all of its URIs (otherwise the outcome would depend on
			// the order in which the aliases are first met, which the property leaves open)
			ks := sortedKeys(u.Docs)
			for _, k := range ks {
				if _, isAlias := u.Alias[k]; isAlias {
					continue
				}
				if slices.Contains(u.Standalone, k) {
					// the resource is reachable both inside its document and on its own: whether the
					// Loader is asked for it is left open, so it is never made to fail
					continue
				}
				if rapid.IntRange(0, 1).Draw(t, "faulty") == 0 {
					u.Faults = append(u.Faults, k)
					for a, p := range u.Alias {
						if p == k {
							u.Faults = append(u.Faults, a)
						}
					}
				}
			}
			sort.Strings(u.Faults)
		}
		if rapid.IntRange(0, 4).Draw(t, "plantdangling") == 0 {
			c.Dangling, c.DanglingWhy, c.DanglingAt = plantDangling(t, u)
		}
		rec.Class(fmt.Sprintf("documents:%d", 1+len(u.Docs)-len(u.Alias)))
		rec.ClassIf(u.BaseURI == "", "config:empty-base-uri")
		rec.ClassIf(u.LoaderNil, "config:nil-loader")
		rec.ClassIf(len(u.Faults) > 0, "config:loader-faults")
		rec.ClassIf(len(u.Alias) > 0, "config:canonical-id-alias")
		rec.ClassIf(u.BaseURI == "http://p.test" || u.BaseURI == "http://p.test/" || u.BaseURI == "http://h.test/dir/", "config:base-uri-without-file-name")
		rec.ClassIf(strings.Contains(u.Root.JSON(), `.json#"`) || strings.Contains(u.Root.JSON(), `#","`), "config:id-with-empty-fragment")
		ev.SetCurrent("C03", c)
		fl := checkC03(c, rec)
		if isHarnessFailure(fl) {
			rec.Inconclusive("generator-or-model-error: " + fl.Msg)
			rec.Flush()
			t.Fatalf("%s", fl.Msg)
		}
		rec.ClassIf(u.EmptyRefs, "feature:empty-reference-spelling")
		rec.ClassIf(len(u.Standalone) > 0, "config:embedded-resource-also-served-standalone")
		if fl != nil {
			if u.EmptyRefs && knownOpen("empty-ref-ignored") && strings.Contains(fl.Msg, "empty-reference") {
				rec.Known("empty-ref-ignored", "\"$ref\": \"\" (RFC 3986: the base URI itself, i.e. the root of the enclosing resource) is treated as no reference at all")
				rec.Case()
				return
			}
			report(t, rec, c, fl)
		}
		rec.Case()
	}
}

func init() {
	replayers["C03"] = func(raw json.RawMessage) *failure {
		var c c03Case
		if err := json.Unmarshal(raw, &c); err != nil {
			return failf("REPLAY-HARNESS-ERROR: %v", err)
		}
		fl := checkC03(&c, nil)
		if isHarnessFailure(fl) {
			return failf("REPLAY-HARNESS-ERROR: %s", fl.Msg)
		}
		return fl
	}
	_ = sort.Strings
}
