package props

// C16 — For is a deterministic, isolating function of type and options.
//
// Generator: tgen types (incl. recursive, unsupported kinds, repeated types) x ForOptions:
// TypeSchemas overriding named pool types (also embedded ones; self-contained schemas with a
// unique title as marker), IgnoreInvalidTypes on/off.
// Oracles: two calls equal (DeepEqual + Marshal bytes); pointer sets of result 1, result 2 and
// every TypeSchemas value pairwise disjoint (own reflective walker); Resolve accepts; agreement
// with encoding/json (key sequence of json.Marshal(Full(T)) == properties key sequence at every
// struct level; required == fields without omitempty/omitzero, own tag parser); For(*T) ==
// For(T) with null added; overridden types carry the marker wherever they occur; recursive
// types => error; unsupported kinds => error, or dropped with IgnoreInvalidTypes.

import (
	"bytes"
	"encoding/json"
	"fmt"
	"os"
	"reflect"
	"slices"
	"sort"
	"strings"
	"testing"
	"time"

	"github.com/google/jsonschema-go/jsonschema"
	"pgregory.net/rapid"

	"verif/ev"
	"verif/tgen"
)

type c16Case struct {
	T         *tgen.TD `json:"type"`
	GoType    string   `json:"go_type,omitempty"`
	Overrides []string `json:"overrides,omitempty"` // pool type names overridden through TypeSchemas
	// OverrideTDs: unnamed composite types (slices, arrays, maps, anonymous structs occurring in
	// T) overridden through TypeSchemas as well
	OverrideTDs []*tgen.TD `json:"override_types,omitempty"`
	Ignore      bool       `json:"ignore_invalid_types"`
	Feature     string     `json:"feature,omitempty"`
}

func poolType(name string) reflect.Type {
	if name == "any" {
		return reflect.TypeFor[any]()
	}
	for _, p := range tgen.Pool {
		if p.Name == name {
			return p.T
		}
	}
	return nil
}

func overrideName(t reflect.Type) string {
	if t == reflect.TypeFor[any]() {
		return "any"
	}
	for _, p := range tgen.Pool {
		if p.T == t {
			return p.Name
		}
	}
	return t.String()
}

func overrideSchema(name string, t reflect.Type) *jsonschema.Schema {
	if t.Kind() == reflect.Struct {
		return &jsonschema.Schema{Type: "object", Properties: map[string]*jsonschema.Schema{
			"ovp-" + name: {Type: "string", Title: "marker-" + name},
		}}
	}
	if len(name)%2 == 0 {
		// a multi-type override whose Types slice has spare capacity, as a caller's append leaves it
		ts := make([]string, 0, 8)
		ts = append(ts, "string", "integer")
		return &jsonschema.Schema{Types: ts, Title: "marker-" + name}
	}
	return &jsonschema.Schema{Type: "string", Title: "marker-" + name}
}

func (c *c16Case) options() (*jsonschema.ForOptions, map[reflect.Type]bool) {
	o := &jsonschema.ForOptions{IgnoreInvalidTypes: c.Ignore}
	ov := map[reflect.Type]bool{}
	if len(c.Overrides) > 0 {
		o.TypeSchemas = map[reflect.Type]*jsonschema.Schema{}
		for _, n := range c.Overrides {
			if t := poolType(n); t != nil {
				o.TypeSchemas[t] = overrideSchema(n, t)
				ov[t] = true
			}
		}
	}
	for _, td := range c.OverrideTDs {
		if t, err := tgen.Build(td); err == nil && t.Name() == "" && t.Kind() != reflect.Pointer && t.Kind() != reflect.Interface {
			if o.TypeSchemas == nil {
				o.TypeSchemas = map[reflect.Type]*jsonschema.Schema{}
			}
			o.TypeSchemas[t] = overrideSchema(overrideName(t), t)
			ov[t] = true
		}
	}
	return o, ov
}

// schemaPointers collects every *Schema reachable from s (own reflective walker).
func schemaPointers(s *jsonschema.Schema, into map[*jsonschema.Schema]int) {
	if s == nil {
		return
	}
	into[s]++
	if into[s] > 1 {
		return
	}
	v := reflect.ValueOf(s).Elem()
	for i := 0; i < v.NumField(); i++ {
		f := v.Field(i)
		switch x := f.Interface().(type) {
		case *jsonschema.Schema:
			schemaPointers(x, into)
		case []*jsonschema.Schema:
			for _, e := range x {
				schemaPointers(e, into)
			}
		case map[string]*jsonschema.Schema:
			ks := make([]string, 0, len(x))
			for k := range x {
				ks = append(ks, k)
			}
			sort.Strings(ks)
			for _, k := range ks {
				schemaPointers(x[k], into)
			}
		}
	}
}

func typesOf(s *jsonschema.Schema) []string {
	if s.Type != "" {
		return []string{s.Type}
	}
	return s.Types
}

// orderedKeys returns the key sequence of a JSON object text.
func orderedKeys(raw json.RawMessage) ([]string, map[string]json.RawMessage) {
	ks, vals, err := orderedObject(raw)
	if err != nil {
		return nil, nil
	}
	return ks, vals
}

// agree walks Go type, the JSON of a fully populated value and the inferred schema in
// parallel. ov: overridden types; ignore: fields of unsupported type are dropped.
func agree(typ reflect.Type, raw json.RawMessage, s *jsonschema.Schema, ov map[reflect.Type]bool, ignore bool, path string, nullable bool) *failure {
	if s == nil {
		return failf("%s: no schema", path)
	}
	for typ.Kind() == reflect.Pointer {
		typ = typ.Elem()
		nullable = true
	}
	hasNull := false
	for _, t := range typesOf(s) {
		if t == "null" {
			hasNull = true
		}
	}
	if ov[typ] {
		name := overrideName(typ)
		want := overrideSchema(name, typ)
		if s.Title != want.Title && !(typ.Kind() == reflect.Struct && s.Properties["ovp-"+name] != nil && s.Properties["ovp-"+name].Title == "marker-"+name) {
			return failf("%s: type %s is overridden through TypeSchemas but the schema here is not the override (title %q)", path, typ, s.Title)
		}
		var nonNull []string
		for _, t := range typesOf(s) {
			if t != "null" {
				nonNull = append(nonNull, t)
			}
		}
		if !slices.Equal(nonNull, typesOf(want)) {
			return failf("%s: overridden type %s: schema types %v, want %v (+null under a pointer)", path, typ, typesOf(s), typesOf(want))
		}
		if nullable && os.Getenv("JSONSCHEMAGODEBUG") != "typeschemasnull=1" && !hasNull {
			return failf("%s: overridden type %s under a pointer: null type not added (%v)", path, typ, typesOf(s))
		}
		if !nullable && hasNull {
			return failf("%s: overridden type %s not under a pointer has a null type", path, typ)
		}
		return nil
	}
	if tgen.IsStdMarshaler(typ) {
		return nil
	}
	if nullable && len(typesOf(s)) > 0 && !hasNull {
		return failf("%s: pointer-ness is not expressed as an added null type (types %v)", path, typesOf(s))
	}
	// (slices, maps and interfaces can be nil and are written as null by encoding/json, so a null
	// type there would be legitimate; scalars, structs and arrays never are)
	if !nullable && hasNull && typ.Kind() != reflect.Slice && typ.Kind() != reflect.Interface && typ.Kind() != reflect.Map {
		return failf("%s: type %s is not behind a pointer (and can never be null) but its schema allows null (types %v)", path, typ, typesOf(s))
	}
	switch typ.Kind() {
	case reflect.Struct:
		keys, vals := orderedKeys(raw)
		fields := jsonFields(typ)
		// The expected sequence is the harness's own enumeration of the fields encoding/json
		// handles, in index order; it is cross-checked against what encoding/json actually emitted
		// for a fully populated value (which may lack optional fields that cannot be non-empty,
		// such as a zero-length array with omitempty).
		own := orderedJSONFieldNames(typ)
		if raw != nil {
			j := 0
			for _, k := range own {
				if j < len(keys) && keys[j] == k {
					j++
				} else if !optionalField(fields[k]) {
					return failf("%s: HARNESS: own field enumeration %q disagrees with encoding/json's output keys %q", path, own, keys)
				}
			}
			if j != len(keys) {
				return failf("%s: HARNESS: own field enumeration %q disagrees with encoding/json's output keys %q", path, own, keys)
			}
		} else {
			vals = map[string]json.RawMessage{}
		}
		keys = own
		// an overridden type that occurs embedded contributes its override's properties instead of
		// its fields: only presence of the marker property is checked at such a level
		if et, found := embeddedOverride(typ, ov); found {
			if et == nil {
				// the overridden type is flattened into this struct along more than one path: which
				// of them (if any) is visible follows Go's depth rules, and nothing is checked here
				return nil
			}
			name := overrideName(et)
			if p := s.Properties["ovp-"+name]; p == nil || p.Title != "marker-"+name {
				return failf("%s: embedded type %s is overridden through TypeSchemas but its override's properties are not merged into the struct's schema", path, et)
			}
			return nil
		}
		// with IgnoreInvalidTypes the fields of unsupported type are dropped
		var wantKeys []string
		for _, k := range keys {
			sf, ok := fields[k]
			if !ok {
				return failf("%s: HARNESS: encoding/json emitted key %q that the harness cannot map to a field", path, k)
			}
			if ignore && tgen.DroppedWhenIgnored(sf.Type, ov) {
				continue
			}
			wantKeys = append(wantKeys, k)
		}
		sb, err := json.Marshal(s)
		if err != nil {
			return failf("%s: Marshal of the inferred schema fails: %v", path, err)
		}
		_, svals := orderedKeys(sb)
		gotKeys, _ := orderedKeys(svals["properties"])
		if !equalStrings(gotKeys, wantKeys) {
			return failf("%s: properties of the inferred schema are %q, encoding/json emits the fields %q (in this order)", path, gotKeys, wantKeys)
		}
		var wantReq []string
		for _, k := range wantKeys {
			if !optionalField(fields[k]) {
				wantReq = append(wantReq, k)
			}
		}
		gotReq := append([]string{}, s.Required...)
		sort.Strings(gotReq)
		sortedWant := append([]string{}, wantReq...)
		sort.Strings(sortedWant)
		if !equalStrings(gotReq, sortedWant) {
			return failf("%s: required is %q, fields without omitempty/omitzero are %q", path, s.Required, wantReq)
		}
		for _, k := range wantKeys {
			if ps := s.Properties[k]; ps != nil {
				if want := fields[k].Tag.Get("jsonschema"); ps.Description != want {
					return failf("%s.%s: description is %q, the field's jsonschema tag says %q", path, k, ps.Description, want)
				}
			}
			if fl := agree(fields[k].Type, vals[k], s.Properties[k], ov, ignore, path+"."+k, false); fl != nil {
				return fl
			}
		}
	case reflect.Slice, reflect.Array:
		var elems []json.RawMessage
		_ = json.Unmarshal(raw, &elems)
		if len(elems) > 0 && s.Items != nil {
			return agree(typ.Elem(), elems[0], s.Items, ov, ignore, path+"[]", false)
		}
	case reflect.Map:
		var m map[string]json.RawMessage
		_ = json.Unmarshal(raw, &m)
		for _, k := range sortedKeys(m) {
			if s.AdditionalProperties != nil {
				return agree(typ.Elem(), m[k], s.AdditionalProperties, ov, ignore, path+"{}", false)
			}
		}
	}
	return nil
}

// embeddedOverride finds an overridden type among the structs flattened into t.
func embeddedOverride(t reflect.Type, ov map[reflect.Type]bool) (reflect.Type, bool) {
	et, ok := embeddedOverride1(t, ov)
	if !ok {
		return nil, false
	}
	// An embedded type that is flattened into t along two paths (struct{ *Shadow; *NamedTwo }, both
	// of which embed Base) is ambiguous: neither Go nor encoding/json sees its fields, and nothing
	// is expected of its override.
	n := 0
	var count func(x reflect.Type)
	count = func(x reflect.Type) {
		for i := 0; i < x.NumField(); i++ {
			sf := x.Field(i)
			if !tgen.EmbeddedStruct(sf) {
				continue
			}
			tagName, _, _ := strings.Cut(sf.Tag.Get("json"), ",")
			if sf.Tag.Get("json") == "-" || tgen.ValidTagName(tagName) {
				continue
			}
			e := sf.Type
			if e.Kind() == reflect.Pointer {
				e = e.Elem()
			}
			if e == et {
				n++
			}
			// (also below other overridden types: Go's visibility rules, which the library's field
			// enumeration follows, know nothing about overrides)
			count(e)
		}
	}
	count(t)
	if n != 1 {
		return nil, true // found, but ambiguous: nil type
	}
	return et, true
}

func embeddedOverride1(t reflect.Type, ov map[reflect.Type]bool) (reflect.Type, bool) {
	for i := 0; i < t.NumField(); i++ {
		sf := t.Field(i)
		if !sf.Anonymous {
			continue
		}
		et := sf.Type
		if et.Kind() == reflect.Pointer {
			et = et.Elem()
		}
		tagName, _, _ := strings.Cut(sf.Tag.Get("json"), ",")
		if et.Kind() != reflect.Struct || sf.Tag.Get("json") == "-" || tgen.ValidTagName(tagName) {
			continue
		}
		if ov[et] {
			return et, true
		}
		if x, ok := embeddedOverride1(et, ov); ok {
			return x, true
		}
	}
	return nil, false
}

// orderedJSONFieldNames lists the JSON names of the fields encoding/json emits for struct
// type t, in emission (index) order, for conflict-free types.
func orderedJSONFieldNames(t reflect.Type) []string {
	fields := jsonFields(t)
	var out []string
	seen := map[string]bool{}
	var walk func(t reflect.Type, prefix []int)
	walk = func(t reflect.Type, prefix []int) {
		for i := 0; i < t.NumField(); i++ {
			sf := t.Field(i)
			tag := sf.Tag.Get("json")
			if tag == "-" {
				continue
			}
			tn, _, _ := strings.Cut(tag, ",")
			if sf.Anonymous {
				et := sf.Type
				if et.Kind() == reflect.Pointer {
					et = et.Elem()
				}
				if et.Kind() == reflect.Struct && !tgen.ValidTagName(tn) {
					walk(et, append(append([]int{}, prefix...), i))
					continue
				}
			}
			if !sf.IsExported() && !tgen.EmbeddedStruct(sf) {
				continue
			}
			name := sf.Name
			if tgen.ValidTagName(tn) {
				name = tn
			}
			if f, ok := fields[name]; ok && reflect.DeepEqual(f.Index, append(append([]int{}, prefix...), i)) && !seen[name] {
				seen[name] = true
				out = append(out, name)
			}
		}
	}
	walk(t, nil)
	return out
}

func checkC16(c *c16Case, rec *ev.Recorder) (fl *failure, harnessErr string) {
	typ, err := tgen.Build(c.T)
	if err != nil {
		return nil, "cannot build type: " + err.Error()
	}
	c.GoType = typ.String()
	type result struct {
		s   *jsonschema.Schema
		err error
	}
	call := func(t reflect.Type) (result, map[reflect.Type]*jsonschema.Schema, bool) {
		opts, _ := c.options()
		done := make(chan result, 1)
		go func() {
			s, err := jsonschema.ForType(t, opts)
			done <- result{s, err}
		}()
		select {
		case r := <-done:
			return r, opts.TypeSchemas, false
		case <-time.After(60 * time.Second):
			return result{}, nil, true
		}
	}
	fl = guard(func() *failure {
		_, ov := c.options()
		r1, ts1, hung := call(typ)
		if hung {
			return failf("ForType(%s) did not return within 60s", c.GoType)
		}
		r2, ts2, _ := call(typ)
		// history independence: the result is a function of the arguments alone, so a call with the
		// other IgnoreInvalidTypes setting (and one without TypeSchemas) in between changes nothing
		c.Ignore = !c.Ignore
		_, _, _ = call(typ)
		c.Ignore = !c.Ignore
		if len(c.Overrides)+len(c.OverrideTDs) > 0 {
			_, _ = jsonschema.ForType(typ, &jsonschema.ForOptions{IgnoreInvalidTypes: !c.Ignore})
		}
		r3, _, _ := call(typ)
		if (r1.err != nil) != (r3.err != nil) {
			return failf("ForType(%s) (ignore=%v): error-ness changes after a call with other options on the same type: first %v, later %v", c.GoType, c.Ignore, r1.err, r3.err)
		}
		if r1.err == nil && !reflect.DeepEqual(r1.s, r3.s) {
			return failf("ForType(%s) (ignore=%v): the schema changes after a call with other options on the same type", c.GoType, c.Ignore)
		}
		cyclic := tgen.Cyclic(typ, ov)
		supported := tgen.Supported(typ, ov)
		wantErr := cyclic || (!supported && !c.Ignore)
		if rec != nil {
			rec.ClassIf(cyclic, "type:cyclic")
			rec.ClassIf(!supported, "type:has-unsupported-kind")
			rec.ClassIf(len(c.Overrides) > 0, "options:TypeSchemas")
			rec.ClassIf(c.Ignore, "options:IgnoreInvalidTypes")
		}
		if (r1.err != nil) != (r2.err != nil) {
			return failf("two ForType(%s) calls with equal arguments disagree about failing: %v vs %v", c.GoType, r1.err, r2.err)
		}
		if wantErr {
			if r1.err == nil {
				return failf("ForType(%s) (ignore=%v) succeeds although the type is %s", c.GoType, c.Ignore, map[bool]string{true: "recursive", false: "unsupported"}[cyclic])
			}
			return nil
		}
		if r1.err != nil {
			return failf("ForType(%s) (ignore=%v, overrides=%v) fails on a type built from documented kinds: %v", c.GoType, c.Ignore, c.Overrides, r1.err)
		}
		if r1.s == nil || r2.s == nil {
			if c.Ignore && tgen.DroppedWhenIgnored(typ, ov) && r1.s == nil && r2.s == nil {
				return nil // the whole type was dropped
			}
			return failf("ForType(%s) returned a nil schema without an error", c.GoType)
		}
		// determinism
		if !reflect.DeepEqual(r1.s, r2.s) {
			return failf("two ForType(%s) calls with equal arguments return different schemas", c.GoType)
		}
		b1, e1 := json.Marshal(r1.s)
		b2, e2 := json.Marshal(r2.s)
		if e1 != nil || e2 != nil || !bytes.Equal(b1, b2) {
			return failf("two ForType(%s) results marshal differently: %s / %s (%v %v)", c.GoType, b1, b2, e1, e2)
		}
		// isolation
		p1, p2 := map[*jsonschema.Schema]int{}, map[*jsonschema.Schema]int{}
		schemaPointers(r1.s, p1)
		schemaPointers(r2.s, p2)
		for p, n := range p1 {
			if n > 1 {
				return failf("ForType(%s): one Schema object occurs %d times inside a single result", c.GoType, n)
			}
			if p2[p] > 0 {
				return failf("ForType(%s): two results share a Schema object", c.GoType)
			}
		}
		for _, ts := range []map[reflect.Type]*jsonschema.Schema{ts1, ts2} {
			for t, s := range ts {
				pt := map[*jsonschema.Schema]int{}
				schemaPointers(s, pt)
				for p := range pt {
					if p1[p] > 0 || p2[p] > 0 {
						return failf("ForType(%s): the result shares a Schema object with the TypeSchemas entry for %s", c.GoType, t)
					}
				}
			}
		}
		// TypeSchemas values must not have been modified
		for t, s := range ts1 {
			if !reflect.DeepEqual(s, overrideSchema(overrideName(t), t)) {
				return failf("ForType(%s) modified the TypeSchemas entry for %s", c.GoType, t)
			}
		}
		if _, err := r1.s.Resolve(nil); err != nil {
			return failf("Resolve rejects the schema inferred for %s: %v\n%s", c.GoType, err, b1)
		}
		// pointer metamorphic relation
		rp, _, _ := call(reflect.PointerTo(typ))
		if rp.err != nil || rp.s == nil {
			return failf("ForType(*%s) fails (%v) although ForType(%s) succeeds", c.GoType, rp.err, c.GoType)
		}
		base := typ
		for base.Kind() == reflect.Pointer {
			base = base.Elem()
		}
		if os.Getenv("JSONSCHEMAGODEBUG") != "typeschemasnull=1" || !(ov[base] || tgen.IsStdMarshaler(base)) {
			want := r1.s.CloneSchemas()
			hasNull := false
			for _, t := range typesOf(want) {
				if t == "null" {
					hasNull = true
				}
			}
			if !hasNull && len(typesOf(want)) > 0 {
				want.Types = append([]string{"null"}, typesOf(want)...)
				want.Type = ""
			}
			bw, _ := json.Marshal(want)
			bp, _ := json.Marshal(rp.s)
			if !bytes.Equal(bw, bp) {
				return failf("ForType(*T) is not ForType(T) with the null type added\n T=%s\n For(T):  %s\n For(*T): %s", c.GoType, b1, bp)
			}
		}
		// agreement with encoding/json
		full := tgen.Value(nil, typ, tgen.VOpts{Full: true})
		pv := reflect.New(typ)
		pv.Elem().Set(full)
		raw, err := json.Marshal(pv.Interface())
		if err != nil {
			raw = nil // e.g. a field of unsupported kind: compare against the harness's own field enumeration
		}
		return agree(typ, raw, r1.s, ov, c.Ignore, "T", false)
	})
	return fl, ""
}

func TestC16(t *testing.T) {
	rec := ev.For("C16")
	defer finish(rec)
	rec.Describe("case = (type from the C04 generator plus recursive/mutually recursive pool types and unsupported kinds at any depth; ForOptions: TypeSchemas overriding 0-3 named pool types — scalars, structs incl. ones that occur embedded, std marshaler types — with self-contained marker schemas; IgnoreInvalidTypes on/off). Oracles: equal results of two calls (DeepEqual, bytes), pairwise disjoint Schema pointer sets (two results, TypeSchemas), TypeSchemas unmodified, Resolve accepts, For(*T) = For(T)+null, properties key sequence and required set agree with json.Marshal of a fully populated value at every struct level (own tag parser), overrides present wherever their type occurs, recursive => error within 60s, unsupported => error / dropped. Non-trivial: struct types with >=3 fields or an embedded struct or an override that is hit. Distinct = distinct (type, options).",
		"types with Go-name/JSON-name conflicts occur only in the 5% known-finding cases",
		"the JSONSCHEMAGODEBUG=typeschemasnull=1 configuration is run by the thorough tier in a child process")
	rapid.Check(t, func(t *rapid.T) {
		c := &c16Case{Ignore: rapid.Bool().Draw(t, "ignore")}
		o := tgen.Opts{MaxDepth: rapid.IntRange(1, 3).Draw(t, "depth"), Std: true, Methods: true, Recursive: rapid.IntRange(0, 2).Draw(t, "rec") == 0, Unsupported: rapid.IntRange(0, 1).Draw(t, "unsup") == 0}
		if rapid.IntRange(0, 19).Draw(t, "feature") == 0 {
			c.Feature = "nameconflict"
			o.NameConflicts = true
		}
		c.T = tgen.GenTD(t, o)
		typ, err := tgen.Build(c.T)
		if err != nil {
			rec.Class("discard:reflect-cannot-build")
			t.Skip("unbuildable")
		}
		if rapid.IntRange(0, 2).Draw(t, "useoverrides") == 0 {
			// override types that occur in T, so that the override is actually hit
			var occurring []string
			c.T.Walk(func(x *tgen.TD) {
				if x.K == "pool" {
					occurring = append(occurring, x.Pool)
				}
				if x.K == "iface" {
					// the empty interface type can be overridden like any other type, wherever it
					// occurs (field, element, map value)
					occurring = append(occurring, "any", "any")
				}
			})
			cands := append(occurring, "NInt", "Inner", "Base", "time.Time", "NStr")
			for i, n := 0, rapid.IntRange(1, 3).Draw(t, "noverrides"); i < n; i++ {
				name := cands[rapid.IntRange(0, len(cands)-1).Draw(t, "override")]
				dup := false
				for _, x := range c.Overrides {
					if x == name {
						dup = true
					}
				}
				if !dup {
					c.Overrides = append(c.Overrides, name)
				}
			}
		}
		ev.Journal("C16", c)
		if rapid.IntRange(0, 5).Draw(t, "unnamed-override") == 0 {
			var comps []*tgen.TD
			c.T.Walk(func(x *tgen.TD) {
				if x != c.T && (x.K == "slice" || x.K == "array" || x.K == "map" || x.K == "struct") {
					comps = append(comps, x)
				}
			})
			if len(comps) > 0 {
				c.OverrideTDs = append(c.OverrideTDs, comps[rapid.IntRange(0, len(comps)-1).Draw(t, "unnamed")])
				rec.Class("options:TypeSchemas-unnamed-type")
			}
		}
		fl, herr := checkC16(c, rec)
		if herr != "" || isHarnessFailure(fl) || (fl != nil && strings.Contains(fl.Msg, "HARNESS:")) {
			if c.Feature == "" {
				rec.Inconclusive("harness: " + herr + fmt.Sprint(fl))
				rec.Flush()
				t.Fatalf("harness: %s %v", herr, fl)
			}
		}
		nFields, embedded := 0, false
		c.T.Walk(func(x *tgen.TD) {
			nFields += len(x.Fields)
			for _, f := range x.Fields {
				if f.Embedded {
					embedded = true
				}
			}
		})
		hit := false
		for _, ovn := range c.Overrides {
			if tdHas(c.T, func(x *tgen.TD) bool { return x.K == "pool" && x.Pool == ovn }) {
				hit = true
			}
		}
		rec.ClassIf(hit, "override-hit")
		rec.ClassIf(embedded, "type:embedded-struct")
		rec.Eval(nFields >= 3 || embedded || hit, []byte(c.GoType+"\x00"+strings.Join(c.Overrides, ",")+fmt.Sprint(c.Ignore)), func() any {
			return map[string]any{"type": c.GoType, "overrides": c.Overrides, "ignore_invalid_types": c.Ignore}
		})
		if fl != nil {
			if c.Feature == "nameconflict" && knownOpen("struct-fields-by-go-visibility") && tgen.AnyNameConflict(typ) {
				rec.Known("struct-fields-by-go-visibility", knownWhat["struct-fields-by-go-visibility"])
				rec.Case()
				return
			}
			report(t, rec, c, fl)
		}
		rec.Case()
	})
}

func init() {
	replayers["C16"] = func(raw json.RawMessage) *failure {
		var c c16Case
		if err := json.Unmarshal(raw, &c); err != nil {
			return failf("REPLAY-HARNESS-ERROR: %v", err)
		}
		fl, herr := checkC16(&c, nil)
		if herr != "" {
			return failf("REPLAY-HARNESS-ERROR: %s", herr)
		}
		return fl
	}
}
