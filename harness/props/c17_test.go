package props

// C17 — Every subschema is addressable by its JSON Pointer.
//
// Generator: a document with a host under $defs/definitions (never applied to an instance)
// that populates every schema-valued, schema-array-valued and schema-map-valued keyword
// (table built by reflection over jsonschema.Schema plus the items/dependencies unions) with
// hostile keys and nesting <= 4; leaves carry unique const markers. Pointers are produced by
// the harness's own RFC 6901 escaper and RFC 3986 fragment encoder. Negative cases: pointers
// that name no subschema location.
// Oracle: marker acceptance vectors vs. refmodel's raw-JSON pointer walk; negatives => Resolve
// returns an error (not success, not panic).

import (
	"encoding/json"
	"fmt"
	"reflect"
	"sort"
	"strings"
	"testing"

	"github.com/google/jsonschema-go/jsonschema"
	"pgregory.net/rapid"

	"verif/ev"
	"verif/jv"
	"verif/refmodel"
)

type c17Probe struct {
	Ref      string `json:"ref"`
	Negative bool   `json:"negative,omitempty"`
	Why      string `json:"why,omitempty"`
	Intended string `json:"intended,omitempty"` // model pointer of the intended target
	Segs     int    `json:"segments,omitempty"`
	Escaped  bool   `json:"escaped,omitempty"`
	Union    bool   `json:"union,omitempty"`
	Under    string `json:"under,omitempty"` // negative probes: raw pointer of the location they hang below
}

type c17Case struct {
	Draft7  bool       `json:"draft7"`
	DefsKW  string     `json:"defs_keyword"`
	Doc     *jv.V      `json:"doc"` // without probes
	Probes  []c17Probe `json:"probes"`
	Markers int        `json:"markers"`
	// FalseNot: known-finding slice. One leaf is the boolean schema false and one negative probe
	// descends into it through "/not" (Unmarshal turns false into {"not":{}}, whose child the
	// pointer walk then finds).
	FalseNot bool `json:"false_not,omitempty"`
}

const c17FalseNotWhy = "descends into the boolean schema false"

type kwInfo struct {
	name string
	kind string // single | array | map
}

// schemaKeywordTable is built by reflection over the exported Schema type.
func schemaKeywordTable() []kwInfo {
	var out []kwInfo
	t := reflect.TypeFor[jsonschema.Schema]()
	for i := 0; i < t.NumField(); i++ {
		f := t.Field(i)
		tag, _, _ := strings.Cut(f.Tag.Get("json"), ",")
		name := tag
		switch f.Name {
		case "Items":
			name = "items"
		case "ItemsArray":
			name = "items[]"
		case "DependencySchemas":
			name = "dependencies"
		}
		if name == "" || name == "-" {
			continue
		}
		switch f.Type {
		case reflect.TypeFor[*jsonschema.Schema]():
			out = append(out, kwInfo{name, "single"})
		case reflect.TypeFor[[]*jsonschema.Schema]():
			out = append(out, kwInfo{name, "array"})
		case reflect.TypeFor[map[string]*jsonschema.Schema]():
			out = append(out, kwInfo{name, "map"})
		}
	}
	sort.Slice(out, func(i, j int) bool { return out[i].name < out[j].name })
	return out
}

var c17Keys = []string{"", "/", "~", "~0", "~1", "~01", "%", "a b", "é", "0", "01", "-", "a/b", "k", "$ref", "x~y/z", "%25", "+1", "a", "?", "#"}

type c17gen struct {
	t       *rapid.T
	tbl     []kwInfo
	defsKW  string
	markers int
}

func (g *c17gen) n(k int, l string) int { return rapid.IntRange(0, k-1).Draw(g.t, l) }

func (g *c17gen) leaf() *jv.V {
	g.markers++
	l := jv.ObjV(jv.Member{K: "const", V: jv.StrV(fmt.Sprintf("m%d", g.markers))})
	if g.n(4, "leafpattern") == 0 {
		// keywords that need something prepared at Resolve time (a compiled expression) wherever
		// the leaf sits; every marker satisfies them
		l.Set("pattern", jv.StrV("^m[0-9]+$"))
		l.Set("patternProperties", jv.ObjV(jv.Member{K: "^zz", V: jv.ObjV(jv.Member{K: "const", V: jv.StrV("zz-never")})}))
	}
	return l
}

func (g *c17gen) sub(depth int) *jv.V {
	if depth <= 0 || g.n(2, "leaf") == 0 {
		switch g.n(12, "trivialleaf") {
		case 0:
			return jv.ObjV() // the empty schema is a location like any other (and accepts every marker)
		case 1:
			return jv.BoolV(true)
		}
		return g.leaf()
	}
	return g.host(depth, false)
}

// host populates a random subset (at the top level: all) of the subschema-bearing keywords.
func (g *c17gen) host(depth int, top bool) *jv.V {
	h := jv.ObjV()
	all := top && g.n(2, "allkw") == 0
	for _, kw := range g.tbl {
		if !all && g.n(9, "usekw") > 0 {
			continue
		}
		name := kw.name
		switch {
		case name == "$defs" || name == "definitions":
			if name != g.defsKW {
				continue // Defs and Definitions are mutually exclusive on one schema
			}
		case name == "items[]":
			if h.Has("items") {
				continue
			}
			name = "items"
		case name == "items":
			if h.Has("items") {
				continue
			}
		}
		switch kw.kind {
		case "single":
			h.Set(name, g.sub(depth-1))
		case "array":
			k := 1 + g.n(3, "narr")
			arr := &jv.V{K: jv.Arr}
			for i := 0; i < k; i++ {
				arr.A = append(arr.A, g.sub(depth-1))
			}
			h.Set(name, arr)
		case "map":
			k := 1 + g.n(3, "nmap")
			o := jv.ObjV()
			for i := 0; i < k; i++ {
				key := rapid.SampledFrom(c17Keys).Draw(g.t, "mapkey")
				if name == "patternProperties" {
					key = rapid.SampledFrom([]string{"^a", "b$", "a/b", "~", "a b", "[0-9]", "é"}).Draw(g.t, "ppkey")
				}
				if !o.Has(key) {
					o.Set(key, g.sub(depth-1))
				}
			}
			if name == "dependencies" && g.n(2, "depstrings") == 0 {
				o.Set("strs", jv.ArrV(jv.StrV("a")))
			}
			h.Set(name, o)
		}
	}
	if g.n(3, "nonschema") == 0 {
		h.Set("required", jv.ArrV(jv.StrV("a")))
		h.Set("type", jv.ArrV(jv.StrV("string"), jv.StrV("object")))
	}
	if g.n(3, "nonschema2") == 0 {
		// keywords whose values are numbers, strings or arbitrary JSON: nothing below them is a schema,
		// even when it looks like one
		h.Set("minimum", jv.NumV("1"))
		h.Set("maxLength", jv.NumV("99"))
		h.Set("title", jv.StrV("t"))
		lookalike := jv.ObjV(jv.Member{K: "properties", V: jv.ObjV(jv.Member{K: "a", V: jv.ObjV()})}, jv.Member{K: "not", V: jv.ObjV()}, jv.Member{K: "type", V: jv.StrV("string")})
		h.Set("default", lookalike.Clone())
		h.Set("examples", jv.ArrV(lookalike.Clone()))
		if g.n(3, "constlookalike") == 0 {
			// (these make the host reject every marker: kept rare)
			h.Set("const", lookalike.Clone())
			h.Set("enum", jv.ArrV(lookalike.Clone()))
		}
	}
	return h
}

// fragment encoding: RFC 3986 fragment = *( pchar / "/" / "?" )
func fragmentEncode(t *rapid.T, s string) string {
	var sb strings.Builder
	for i := 0; i < len(s); i++ {
		c := s[i]
		legal := c >= 'a' && c <= 'z' || c >= 'A' && c <= 'Z' || c >= '0' && c <= '9' || strings.IndexByte("-._~!$&'()*+,;=:@/?", c) >= 0
		if legal && rapid.IntRange(0, 5).Draw(t, "pctlegal") > 0 {
			sb.WriteByte(c)
		} else {
			fmt.Fprintf(&sb, "%%%02X", c)
		}
	}
	return sb.String()
}

type c17loc struct {
	ptr   string // raw (unencoded) JSON pointer from the document root
	segs  int
	esc   bool
	union bool
	node  *jv.V
}

// locations enumerates every subschema location below v.
func locations(v *jv.V, ptr string, segs int, esc, union bool, out *[]c17loc) {
	*out = append(*out, c17loc{ptr, segs, esc, union, v})
	if v.K != jv.Obj {
		return
	}
	for _, m := range v.O {
		switch m.K {
		case "$defs", "definitions", "properties", "patternProperties", "dependentSchemas", "dependencies":
			if m.V.K != jv.Obj {
				continue
			}
			for _, mm := range m.V.O {
				if mm.V.K == jv.Arr {
					continue // dependencies: string list
				}
				e := refmodel.EscapePtr(mm.K)
				locations(mm.V, ptr+"/"+refmodel.EscapePtr(m.K)+"/"+e, segs+2, esc || e != mm.K || strings.ContainsAny(mm.K, " %é?#"), union || m.K == "dependencies", out)
			}
		case "allOf", "anyOf", "oneOf", "prefixItems":
			for i, e := range m.V.A {
				locations(e, fmt.Sprintf("%s/%s/%d", ptr, m.K, i), segs+2, esc, union, out)
			}
		case "items":
			if m.V.K == jv.Arr {
				for i, e := range m.V.A {
					locations(e, fmt.Sprintf("%s/items/%d", ptr, i), segs+2, esc, true, out)
				}
			} else {
				locations(m.V, ptr+"/items", segs+1, esc, true, out)
			}
		case "additionalProperties", "propertyNames", "unevaluatedProperties", "unevaluatedItems", "contains", "not", "if", "then", "else", "additionalItems", "contentSchema":
			locations(m.V, ptr+"/"+m.K, segs+1, esc, union, out)
		}
	}
}

func genC17(t *rapid.T) *c17Case {
	c := &c17Case{Draft7: rapid.IntRange(0, 2).Draw(t, "d7") == 0}
	g := &c17gen{t: t, tbl: schemaKeywordTable()}
	g.defsKW = "$defs"
	if c.Draft7 || rapid.IntRange(0, 3).Draw(t, "definitions") == 0 {
		g.defsKW = "definitions"
	}
	c.DefsKW = g.defsKW
	host := g.host(rapid.IntRange(2, 4).Draw(t, "depth"), true)
	c.Markers = g.markers
	doc := jv.ObjV()
	if c.Draft7 {
		doc.Set("$schema", jv.StrV(refmodel.URI7))
	}
	defs := jv.ObjV(jv.Member{K: "host", V: host})
	var locs []c17loc
	if rapid.IntRange(0, 2).Draw(t, "toplevelkeys") == 0 {
		// definitions reachable by a two-segment pointer, under names that are each other's
		// escaped form: "a/b" beside "a~1b", "~" beside "~0", ...
		pairs := [][2]string{{"a/b", "a~1b"}, {"~", "~0"}, {"x~y/z", "x~0y~1z"}, {"~1", "~01"}, {"/", "~1"}, {"m~n", "m~0n"}, {"application/json", "application~1json"}}
		for i, k := 0, rapid.IntRange(1, 3).Draw(t, "npairs"); i < k; i++ {
			p := pairs[rapid.IntRange(0, len(pairs)-1).Draw(t, "pair")]
			which := rapid.IntRange(0, 2).Draw(t, "pairwhich") // 0: both, 1: only the plain one, 2: only the escaped-looking one
			for j, key := range p {
				if (which == 1 && j == 1) || (which == 2 && j == 0) || defs.Has(key) {
					continue
				}
				leaf := g.leaf()
				defs.Set(key, leaf)
				l := c17loc{ptr: "/" + refmodel.EscapePtr(g.defsKW) + "/" + refmodel.EscapePtr(key), segs: 2, esc: true, node: leaf}
				locs = append(locs, l)
				c.Probes = append(c.Probes, c17Probe{Ref: "#" + fragmentEncode(t, l.ptr), Intended: l.ptr, Segs: 2, Escaped: true})
			}
			if which == 2 && !defs.Has(p[0]) {
				// only the escaped-looking name exists: the pointer that spells the plain name names nothing
				c.Probes = append(c.Probes, c17Probe{Ref: "#" + fragmentEncode(t, "/"+refmodel.EscapePtr(g.defsKW)+"/"+p[1]), Negative: true, Why: "key exists only in its escaped-looking spelling"})
			}
		}
		c.Markers = g.markers
	}
	doc.Set(g.defsKW, defs)
	c.Doc = doc
	locations(host, "/"+refmodel.EscapePtr(g.defsKW)+"/host", 2, false, false, &locs)
	np := rapid.IntRange(2, 6).Draw(t, "nprobes")
	for i := 0; i < np; i++ {
		if rapid.IntRange(0, 3).Draw(t, "negative") == 0 {
			c.Probes = append(c.Probes, genNegative(t, locs))
			continue
		}
		// prefer deep locations
		l := locs[rapid.IntRange(0, len(locs)-1).Draw(t, "loc")]
		if l2 := locs[rapid.IntRange(0, len(locs)-1).Draw(t, "loc2")]; l2.segs > l.segs {
			l = l2
		}
		c.Probes = append(c.Probes, c17Probe{Ref: "#" + fragmentEncode(t, l.ptr), Intended: l.ptr, Segs: l.segs, Escaped: l.esc, Union: l.union})
	}
	if rapid.IntRange(0, 19).Draw(t, "falsenot") == 0 {
		var leaves []c17loc
		for _, l := range locs {
			if l.node.K == jv.Obj && len(l.node.O) == 1 && l.node.Has("const") && l.segs > 2 {
				leaves = append(leaves, l)
			}
		}
		if len(leaves) > 0 {
			l := leaves[rapid.IntRange(0, len(leaves)-1).Draw(t, "falseleaf")]
			*l.node = *jv.BoolV(false)
			c.FalseNot = true
			// negative probes drawn earlier below this very leaf assumed it was an object
			kept := c.Probes[:0]
			for _, p := range c.Probes {
				if !(p.Negative && p.Under == l.ptr) {
					kept = append(kept, p)
				}
			}
			c.Probes = kept
			c.Probes = append(c.Probes, c17Probe{Ref: "#" + fragmentEncode(t, l.ptr+"/not"), Negative: true, Why: c17FalseNotWhy})
		}
	}
	return c
}

func genNegative(t *rapid.T, locs []c17loc) c17Probe {
	l := locs[rapid.IntRange(0, len(locs)-1).Draw(t, "nloc")]
	base := "#" + fragmentEncode(t, l.ptr)
	type neg struct{ suffix, why string }
	cands := []neg{
		{"/nosuchkeyword", "unknown keyword"},
		{"/required/0", "non-schema keyword (string list)"},
		{"/type", "non-schema keyword"},
		{"/properties/no-such-key", "missing map key"},
		{"/allOf/99", "index out of range"},
		{"/allOf/-", "'-' index"},
		{"/allOf/x", "non-numeric index"},
		{"/properties", "stops at a map keyword"},
		{"/allOf", "stops at an array keyword"},
		{"/properties/~2", "bad escape, no such key"},
	}
	if l.node.K == jv.Obj {
		for _, kw := range []string{"allOf", "anyOf", "oneOf", "prefixItems"} {
			if a := l.node.Get(kw); a != nil && a.K == jv.Arr && len(a.A) > 0 {
				cands = append(cands,
					neg{"/" + kw + "/+0", "signed index"}, neg{"/" + kw + "/-0", "signed index"}, neg{"/" + kw + "/00", "leading zero"},
					neg{fmt.Sprintf("/%s/%d", kw, len(a.A)), "index == length"}, neg{"/" + kw + "/0x0", "hex index"},
					neg{"/" + kw + "/18446744073709551616", "index 2^64 (wraps to 0 in 64-bit arithmetic)"}, neg{"/" + kw + "/9223372036854775808", "index 2^63"},
					neg{"/" + kw + "/340282366920938463463374607431768211456", "index 2^128"}, neg{"/" + kw + "/4294967296", "index 2^32"})
				if len(a.A) > 1 {
					cands = append(cands, neg{"/" + kw + "/01", "leading zero"}, neg{"/" + kw + "/+1", "signed index"})
				}
			}
		}
		for _, kw := range []string{"not", "if", "then", "else", "contains", "additionalProperties", "propertyNames", "items", "unevaluatedItems", "unevaluatedProperties", "contentSchema", "additionalItems"} {
			if !l.node.Has(kw) {
				cands = append(cands, neg{"/" + kw, "absent single-schema keyword"})
			}
		}
		if l.node.Has("minimum") && l.node.Has("default") {
			if l.node.Has("const") {
				cands = append(cands, neg{"/const", "non-schema keyword (arbitrary JSON)"}, neg{"/const/properties", "below const"}, neg{"/const/properties/a", "below const"}, neg{"/const/not", "below const"},
					neg{"/enum/0", "below enum"}, neg{"/enum/0/not", "below enum"}, neg{"/const/properties/a", "below const"})
			}
			cands = append(cands,
				neg{"/minimum", "non-schema keyword"}, neg{"/minimum/type", "below a numeric keyword"}, neg{"/maxLength/items", "below a numeric keyword"},
				neg{"/maxLength/0", "below a numeric keyword"}, neg{"/title/x", "below a string keyword"}, neg{"/title", "non-schema keyword"},
				neg{"/default/not", "below default"}, neg{"/default/properties/a", "below default"}, neg{"/default", "non-schema keyword (arbitrary JSON)"}, neg{"/examples/0/not", "below examples"},
				neg{"/minimum/type", "below a numeric keyword"})
		}
		if d := l.node.Get("dependencies"); d != nil && d.Has("strs") {
			cands = append(cands, neg{"/dependencies/strs", "dependencies entry that is a string list"})
		}
	} else {
		cands = []neg{{"/not", "descends into a boolean schema"}}
	}
	if rapid.IntRange(0, 11).Draw(t, "swapdefs") == 0 {
		// the same pointer through the other spelling of the definitions keyword, which this
		// document does not have: `$defs` and `definitions` are two different keywords
		other := map[string]string{"$defs": "definitions", "definitions": "$defs"}
		segs := strings.Split(l.ptr, "/")
		var idx []int
		for i, sg := range segs {
			if _, ok := other[sg]; ok && i%2 == 1 {
				idx = append(idx, i)
			}
		}
		if len(idx) > 0 {
			i := idx[rapid.IntRange(0, len(idx)-1).Draw(t, "swapwhich")]
			segs[i] = other[segs[i]]
			return c17Probe{Ref: "#" + fragmentEncode(t, strings.Join(segs, "/")), Negative: true, Why: "other spelling of the definitions keyword"}
		}
	}
	n := cands[rapid.IntRange(0, len(cands)-1).Draw(t, "negkind")]
	if n.suffix == "__noslash" {
		return c17Probe{Ref: "#" + strings.TrimPrefix(l.ptr, "/"), Negative: true, Why: "missing leading slash"}
	}
	return c17Probe{Ref: base + n.suffix, Negative: true, Why: n.why, Under: l.ptr}
}

func (c *c17Case) docWith(probes []c17Probe) *jv.V {
	d := c.Doc.Clone()
	props := jv.ObjV()
	for i, p := range probes {
		props.Set(fmt.Sprintf("p%d", i), jv.ObjV(jv.Member{K: "$ref", V: jv.StrV(p.Ref)}))
	}
	d.Set("properties", props)
	return d
}

func checkC17(c *c17Case, rec *ev.Recorder) *failure {
	draft := refmodel.D2020
	if c.Draft7 {
		draft = refmodel.D7
	}
	var pos []c17Probe
	for _, p := range c.Probes {
		if !p.Negative {
			pos = append(pos, p)
		}
	}
	// positives: one document with all of them
	doc := c.docWith(pos)
	m, err := refmodel.New(&refmodel.Universe{Root: doc}, draft)
	if err != nil {
		return failf("HARNESS: model cannot index: %v", err)
	}
	props := doc.Get("properties")
	for i, p := range pos {
		n := m.NodeOf(props.Get(fmt.Sprintf("p%d", i)))
		tgt, _, err := m.ResolveRef(n, p.Ref)
		if err != nil {
			return failf("HARNESS: model cannot resolve positive probe %q: %v", p.Ref, err)
		}
		if tgt.Ptr != p.Intended {
			return failf("HARNESS: model resolves %q to %q, generator intended %q", p.Ref, tgt.Ptr, p.Intended)
		}
	}
	text := doc.JSON()
	fl := guard(func() *failure {
		var s jsonschema.Schema
		if err := json.Unmarshal([]byte(text), &s); err != nil {
			return failf("Unmarshal rejects a well-formed document: %v\n%s", err, text)
		}
		rs, err := s.Resolve(nil)
		if err != nil {
			return failf("Resolve fails although every $ref is the JSON Pointer of an existing subschema: %v\n refs: %q\n doc: %s", err, refsOf(pos), text)
		}
		for i, p := range pos {
			for j := 0; j <= c.Markers; j++ {
				mk := fmt.Sprintf("m%d", j)
				inst := jv.ObjV(jv.Member{K: fmt.Sprintf("p%d", i), V: jv.StrV(mk)})
				want, err := m.Validate(inst)
				if err != nil {
					return failf("HARNESS: model error: %v", err)
				}
				got := rs.Validate(inst.ToAny())
				if (got == nil) != want {
					return failf("$ref %q (pointer %s) does not reach its subschema: marker %s accepted=%v, expected %v\n doc: %s", p.Ref, p.Intended, mk, got == nil, want, text)
				}
			}
			if rec != nil {
				nt := p.Segs >= 2 && (p.Escaped || p.Union)
				rec.ClassIf(p.Escaped, "pointer:needs-escaping")
				rec.ClassIf(p.Union, "pointer:through-union-keyword")
				for _, seg := range strings.Split(p.Intended, "/") {
					if knownKW[seg] {
						rec.Class("via:" + seg)
					}
				}
				rec.Eval(nt, []byte(text+"\x00"+p.Ref), func() any {
					return map[string]any{"ref": p.Ref, "pointer": p.Intended, "doc": doc}
				})
			}
		}
		return nil
	})
	if fl != nil {
		return fl
	}
	// negatives: one document each
	for _, p := range c.Probes {
		if !p.Negative {
			continue
		}
		nd := c.docWith([]c17Probe{p})
		nm, err := refmodel.New(&refmodel.Universe{Root: nd}, draft)
		if err != nil {
			return failf("HARNESS: model cannot index: %v", err)
		}
		if _, _, err := nm.ResolveRef(nm.NodeOf(nd.Get("properties").Get("p0")), p.Ref); err == nil {
			// the candidate happens to exist in this host (e.g. a key literally named like the suffix): not a negative
			if rec != nil {
				rec.Class("negative:discarded-because-it-exists")
			}
			continue
		}
		ntext := nd.JSON()
		fl := guard(func() *failure {
			var s jsonschema.Schema
			if err := json.Unmarshal([]byte(ntext), &s); err != nil {
				return failf("Unmarshal rejects a well-formed document: %v\n%s", err, ntext)
			}
			rs, err := s.Resolve(nil)
			if err == nil {
				// show what it selected instead
				verdict := "?"
				func() {
					defer func() {
						if r := recover(); r != nil {
							verdict = fmt.Sprintf("Validate panics: %v", r)
						}
					}()
					verdict = fmt.Sprint(rs.Validate(map[string]any{"p0": "m1"}))
				}()
				return failf("Resolve succeeds on a $ref whose pointer names no subschema location (%s): %q\n (validating {\"p0\":\"m1\"} then gives: %s)\n doc: %s", p.Why, p.Ref, verdict, ntext)
			}
			return nil
		})
		if rec != nil {
			rec.Class("negative:" + p.Why)
			rec.Eval(true, []byte(ntext), func() any { return map[string]any{"negative_ref": p.Ref, "why": p.Why, "doc": nd} })
		}
		if fl != nil {
			return fl
		}
	}
	return nil
}

func refsOf(ps []c17Probe) []string {
	var out []string
	for _, p := range ps {
		out = append(out, p.Ref)
	}
	return out
}

func TestC17(t *testing.T) {
	rec := ev.For("C17")
	defer finish(rec)
	rec.Describe("case = (document whose $defs/definitions host populates the subschema-bearing keywords found by reflection over jsonschema.Schema — single, array and map valued, incl. the items and dependencies unions — with hostile keys (\"\", \"/\", \"~\", \"~0\", \"~1\", \"~01\", \"%\", spaces, non-ASCII, digits, \"-\") nested to depth<=4, leaves = unique const markers; 2-6 probes, each a $ref built by the harness's RFC 6901 escaper + RFC 3986 fragment encoder (random raw/percent choice where both are legal), about a quarter of them negative: unknown/absent/non-schema keyword, missing key, index out of range / '-' / signed / leading zero / hex, pointer stopping at a container, bad escape, boolean schema descent). Oracle: acceptance of every marker equals the reference evaluator's (whose pointer walk is cross-checked against the intended location); negatives => Resolve error. Non-trivial: pointer with >=2 segments that needs escaping or passes through a union keyword, and every negative probe. Distinct = distinct (document, ref).",
		"a negative candidate that happens to exist in the generated host is discarded (counted)",
		"pointers never cross from one schema resource into an embedded resource with its own $id (no $id is generated here)")
	rapid.Check(t, watched("C17", propC17(rec)))
}

// propC17 is the property body, shared by TestC17 (rapid) and FuzzC17 (native fuzzing over
// rapid's bit stream).
func propC17(rec *ev.Recorder) func(t *rapid.T) {
	return func(t *rapid.T) {
		c := genC17(t)
		fl := checkC17(c, rec)
		if isHarnessFailure(fl) {
			rec.Inconclusive("generator-or-model-error: " + fl.Msg)
			rec.Flush()
			t.Fatalf("%s", fl.Msg)
		}
		rec.ClassIf(c.FalseNot, "feature:pointer-into-false-schema")
		if fl != nil {
			if c.FalseNot && knownOpen("false-schema-has-not-child") && strings.Contains(fl.Msg, c17FalseNotWhy) {
				rec.Known("false-schema-has-not-child", "a pointer ending in /not below a subschema that is the boolean false resolves to the empty schema inside Unmarshal's {\"not\":{}} rendering of false instead of making Resolve fail")
				rec.Case()
				return
			}
			report(t, rec, c, fl)
		}
		rec.Case()
	}
}

func init() {
	replayers["C17"] = func(raw json.RawMessage) *failure {
		var c c17Case
		if err := json.Unmarshal(raw, &c); err != nil {
			return failf("REPLAY-HARNESS-ERROR: %v", err)
		}
		fl := checkC17(&c, nil)
		if isHarnessFailure(fl) {
			return failf("REPLAY-HARNESS-ERROR: %s", fl.Msg)
		}
		return fl
	}
}
