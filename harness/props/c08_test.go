package props

// C08 — The verdict does not depend on the Go representation of the instance.
//
// Generator: (schema, JSON value) from the C01 generator x 5 repr representations.
// Oracle: differential — verdict of each representation == verdict of the canonical decoding
// (json.Unmarshal into any); a panic is a failure.

import (
	"encoding/json"
	"reflect"
	"testing"

	"github.com/google/jsonschema-go/jsonschema"
	"pgregory.net/rapid"

	"verif/ev"
	"verif/jv"
	"verif/refmodel"
	"verif/repr"
	"verif/sgen"
)

type c08Case struct {
	Schema  *jv.V    `json:"schema"`
	Draft7  bool     `json:"draft7"`
	Inst    *jv.V    `json:"instance"`
	Choices [][]int  `json:"choices"`
	Reprs   []string `json:"reprs,omitempty"`
	// Fixed[i] > 0: representation i is built as c08FixedTypes[Fixed[i]-1] when that type can hold
	// the instance (homogeneous typed containers of numbers)
	Fixed []int `json:"fixed,omitempty"`
}

var c08FixedTypes = []reflect.Type{
	reflect.TypeFor[[]json.Number](), reflect.TypeFor[map[string]json.Number](), reflect.TypeFor[[]float64](),
	reflect.TypeFor[[]*json.Number](), reflect.TypeFor[[3]json.Number](), reflect.TypeFor[[]float32](), reflect.TypeFor[map[string]float64](),
}

func checkC08(c *c08Case, rec *ev.Recorder) (fl *failure, harnessErr string) {
	doc := c.Schema.JSON()
	var reps []any
	c.Reprs = nil
	for i, ch := range c.Choices {
		b := &repr.Builder{C: &repr.Script{Seq: ch}}
		x := b.Build(c.Inst)
		if i < len(c.Fixed) && c.Fixed[i] > 0 && c.Fixed[i] <= len(c08FixedTypes) {
			if y, ok := (&repr.Builder{C: &repr.Script{Seq: ch}}).BuildAs(c.Inst, c08FixedTypes[c.Fixed[i]-1]); ok {
				x = y
			}
		}
		if msg := selfCheckRepr(x, c.Inst); msg != "" {
			return nil, msg
		}
		reps = append(reps, x)
		c.Reprs = append(c.Reprs, repr.Describe(x))
	}
	fl = guard(func() *failure {
		var s jsonschema.Schema
		if err := json.Unmarshal([]byte(doc), &s); err != nil {
			return failf("Unmarshal rejects a well-formed schema document: %v\n%s", err, doc)
		}
		rs, err := s.Resolve(nil)
		if err != nil {
			return failf("Resolve rejects a well-formed schema document: %v\n%s", err, doc)
		}
		var canon any
		if err := json.Unmarshal([]byte(c.Inst.JSON()), &canon); err != nil {
			return failf("HARNESS: instance text does not decode: %v", err)
		}
		want := rs.Validate(canon) == nil
		for i, x := range reps {
			var got error
			if f := guard(func() *failure { got = rs.Validate(x); return nil }); f != nil {
				return failf("Validate panics on representation %s of %s\n schema: %s\n%s", c.Reprs[i], c.Inst.JSON(), doc, f.Msg)
			}
			if (got == nil) != want {
				return failf("verdict depends on the Go representation: canonical decoding accepted=%v, %s accepted=%v\n schema:   %s\n instance: %s\n error: %v", want, c.Reprs[i], got == nil, doc, c.Inst.JSON(), got)
			}
		}
		return nil
	})
	return fl, ""
}

func TestC08(t *testing.T) {
	rec := ev.For("C08")
	defer finish(rec)
	rec.Describe("case = (schema document from the C01/C02 grammar, biased to enum/const/uniqueItems/type/numeric/length/object keywords; one JSON value; 5 Go representations of it: numeric kind per leaf incl. json.Number and named types, []any/[]T/[N]T/named slices, map[string]any/map[K]T with named string key types, 0-2 pointers and interfaces at any depth, nil pointers for null). Oracle: verdict of every representation == verdict of json.Unmarshal-into-any of the same document. Non-trivial: the representation differs from the canonical one (repr.Describe) and the schema has >=1 keyword applicable to the instance type. Distinct = distinct (schema, value, representation).",
		"nil slices, nil maps and struct instances are never generated (documented as ambiguous/unsupported)",
		"float32 is used only where encoding/json's float32 spelling denotes exactly the same number; []uint8-kind slices are excluded (encoding/json writes them as base64 strings)")
	rapid.Check(t, func(t *rapid.T) {
		c := &c08Case{}
		c.Draft7 = rapid.IntRange(0, 4).Draw(t, "d7") == 0
		d := refmodel.D2020
		if c.Draft7 {
			d = refmodel.D7
		}
		lens := rapid.SampledFrom([]sgen.Lens{sgen.LensAny, sgen.LensAny, sgen.LensNumeric, sgen.LensString, sgen.LensObject, sgen.LensArray}).Draw(t, "lens")
		c.Schema = sgen.Draw(t, sgen.Opts{Draft: d, MaxDepth: 2, Lens: lens})
		insts := sgen.Instances(t, c.Schema, 1)
		// multipleOf stays whatever the magnitudes are: the reference here is the canonical decoding
		// of the same document, not exact arithmetic, so C01's multipleOf restriction does not apply
		c.Inst = insts[0]
		if rapid.IntRange(0, 7).Draw(t, "numberlists") == 0 {
			// one subschema applied to several numbers in turn (items, additionalProperties, contains),
			// integral and fractional ones mixed, carried by homogeneous typed containers
			sub := jv.ObjV(jv.Member{K: "type", V: jv.StrV(rapid.SampledFrom([]string{"integer", "number"}).Draw(t, "nltype"))})
			if rapid.Bool().Draw(t, "nlmin") {
				sub.Set("minimum", jv.NumV("1"))
			}
			kw := rapid.SampledFrom([]string{"items", "additionalProperties", "contains"}).Draw(t, "nlkw")
			c.Schema = jv.ObjV(jv.Member{K: kw, V: sub})
			lists := []string{`[1,2.5,3]`, `[2.5,1]`, `[1,1.0,2]`, `[0,-0,0.5]`, `[3,2,1]`, `{"a":1,"b":2.5}`, `{"a":2.5,"b":1,"c":4}`, `[1e2,0.5,7]`}
			c.Inst, _ = jv.Parse(rapid.SampledFrom(lists).Draw(t, "nllist"))
			for i := 0; i < 5; i++ {
				c.Fixed = append(c.Fixed, rapid.IntRange(0, len(c08FixedTypes)).Draw(t, "nlfixed"))
			}
			rec.Class("family:typed-number-containers")
		}
		used := map[string]int{}
		for i := 0; i < 5; i++ {
			l := &repr.Logger{In: repr.RapidChooser{T: t}}
			bd := &repr.Builder{C: l}
			bd.Build(c.Inst)
			c.Choices = append(c.Choices, l.Log)
			for k, n := range bd.Used {
				used[k] += n
			}
		}
		fl, herr := checkC08(c, rec)
		if herr != "" || isHarnessFailure(fl) {
			rec.Inconclusive("generator-self-check: " + herr)
			rec.Flush()
			t.Fatalf("harness self-check: %s %v", herr, fl)
		}
		for k := range used {
			rec.Class("repr:" + k)
		}
		canonDesc := repr.Describe(c.Inst.ToAny())
		app := applicableCount(c.Schema, c.Inst) > 0
		for i, r := range c.Reprs {
			nt := r != canonDesc && app
			rec.Eval(nt, []byte(c.Schema.JSON()+"\x00"+c.Inst.Canon()+"\x00"+r), func() any {
				return map[string]any{"schema": c.Schema, "instance": c.Inst, "representation": c.Reprs[i]}
			})
		}
		if fl != nil {
			report(t, rec, c, fl)
		}
		rec.Case()
	})
}

func init() {
	replayers["C08"] = func(raw json.RawMessage) *failure {
		var c c08Case
		if err := json.Unmarshal(raw, &c); err != nil {
			return failf("REPLAY-HARNESS-ERROR: %v", err)
		}
		fixNil(&c.Inst)
		fl, herr := checkC08(&c, nil)
		if herr != "" {
			return failf("REPLAY-HARNESS-ERROR: %s", herr)
		}
		return fl
	}
}
