package props

// Harness self-checks ("who checks the checker"): the reference model must reproduce every
// expected verdict of the official JSON-Schema-Test-Suite files shipped in the repository.
// A mismatch is a harness error (exit 2), never a VIOLATION.

import (
	"encoding/json"
	"fmt"
	"os"
	"path/filepath"
	"sort"
	"strings"
	"sync"
	"testing"

	"verif/jv"
	"verif/refmodel"
)

func repoDir() string {
	if d := os.Getenv("VERIF_REPO"); d != "" {
		return d
	}
	return "/repo"
}

var (
	suiteOnce sync.Once
	suiteDocs map[string]*jv.V
	suiteErr  error
)

// suiteUniverseDocs maps the remotes directory and the meta-schemas to retrieval URIs.
func suiteUniverseDocs() (map[string]*jv.V, error) {
	suiteOnce.Do(func() {
		suiteDocs = map[string]*jv.V{}
		root := filepath.Join(repoDir(), "jsonschema", "testdata", "remotes")
		suiteErr = filepath.Walk(root, func(p string, info os.FileInfo, err error) error {
			if err != nil || info.IsDir() || !strings.HasSuffix(p, ".json") {
				return err
			}
			b, err := os.ReadFile(p)
			if err != nil {
				return err
			}
			v, err := jv.Parse(string(b))
			if err != nil {
				return fmt.Errorf("%s: %w", p, err)
			}
			rel, _ := filepath.Rel(root, p)
			suiteDocs["http://localhost:1234/"+filepath.ToSlash(rel)] = v
			return nil
		})
		if suiteErr != nil {
			return
		}
		meta := filepath.Join(repoDir(), "jsonschema", "meta-schemas")
		add := func(uri, file string) {
			b, err := os.ReadFile(filepath.Join(meta, file))
			if err != nil {
				suiteErr = err
				return
			}
			v, err := jv.Parse(string(b))
			if err != nil {
				suiteErr = err
				return
			}
			suiteDocs[uri] = v
		}
		add("https://json-schema.org/draft/2020-12/schema", "draft2020-12/schema.json")
		for _, n := range []string{"meta-data", "content", "core", "applicator", "validation", "format-annotation", "unevaluated"} {
			add("https://json-schema.org/draft/2020-12/meta/"+n, "draft2020-12/meta/"+n+".json")
		}
		add("http://json-schema.org/draft-07/schema", "draft7/schema.json")
		add("https://json-schema.org/draft-07/schema", "draft7/schema.json")
	})
	return suiteDocs, suiteErr
}

type suiteGroup struct {
	Description string          `json:"description"`
	Schema      json.RawMessage `json:"schema"`
	Tests       []struct {
		Description string          `json:"description"`
		Data        json.RawMessage `json:"data"`
		Valid       bool            `json:"valid"`
	} `json:"tests"`
}

// runModelOnSuite returns (pairs checked, mismatches).
func runModelOnSuite() (int, []string, error) {
	docs, err := suiteUniverseDocs()
	if err != nil {
		return 0, nil, err
	}
	var mismatches []string
	n := 0
	for _, dir := range []struct {
		name  string
		draft refmodel.Draft
	}{{"draft2020-12", refmodel.D2020}, {"draft7", refmodel.D7}} {
		files, _ := filepath.Glob(filepath.Join(repoDir(), "jsonschema", "testdata", dir.name, "*.json"))
		sort.Strings(files)
		for _, f := range files {
			b, err := os.ReadFile(f)
			if err != nil {
				return n, nil, err
			}
			var groups []suiteGroup
			if err := json.Unmarshal(b, &groups); err != nil {
				return n, nil, fmt.Errorf("%s: %w", f, err)
			}
			for _, g := range groups {
				sv, err := jv.Parse(string(g.Schema))
				if err != nil {
					return n, nil, fmt.Errorf("%s/%s: %w", f, g.Description, err)
				}
				draft := dir.draft
				if sv.K == jv.Obj {
					if s := sv.Get("$schema"); s != nil && s.K == jv.Str {
						if d, ok := refmodel.DraftOf(s.S); ok {
							draft = d
						}
					}
				}
				m, err := refmodel.New(&refmodel.Universe{Docs: docs, Root: sv, RootURI: ""}, draft)
				if err != nil {
					mismatches = append(mismatches, fmt.Sprintf("%s/%s: model cannot index: %v", filepath.Base(f), g.Description, err))
					continue
				}
				for _, tc := range g.Tests {
					iv, err := jv.Parse(string(tc.Data))
					if err != nil {
						return n, nil, err
					}
					n++
					got, err := m.Validate(iv)
					if err != nil {
						mismatches = append(mismatches, fmt.Sprintf("%s/%s/%s: model error: %v", filepath.Base(f), g.Description, tc.Description, err))
						continue
					}
					if got != tc.Valid {
						mismatches = append(mismatches, fmt.Sprintf("%s/%s/%s: model says %v, suite says %v", filepath.Base(f), g.Description, tc.Description, got, tc.Valid))
					}
				}
			}
		}
	}
	return n, mismatches, nil
}

func TestSelfModelReproducesOfficialSuite(t *testing.T) {
	n, mm, err := runModelOnSuite()
	if err != nil {
		t.Fatal(err)
	}
	for _, m := range mm {
		t.Errorf("%s", m)
	}
	t.Logf("reference model checked against %d official (schema, instance, verdict) triples; %d mismatches", n, len(mm))
	if n < 1500 {
		t.Errorf("only %d suite cases found", n)
	}
	fmt.Printf("SELF model-vs-suite pairs=%d mismatches=%d\n", n, len(mm))
}
