package props

import (
	"encoding/json"
	"fmt"
	"os"
	"runtime/debug"
	"strings"
	"testing"

	"pgregory.net/rapid"

	"verif/ev"
	"verif/jv"
)

func TestMain(m *testing.M) {
	ev.StartWatchdog()
	code := m.Run()
	ev.FlushAll()
	os.Exit(code)
}

// watched marks the beginning and the end of every case for the stuck-case watchdog
// (ev.StartWatchdog). Until the property body has built its case and said so with ev.SetCurrent,
// the watchdog only knows that the case is still being generated.
func watched(prop string, body func(*rapid.T)) func(*rapid.T) {
	return func(t *rapid.T) {
		ev.SetCurrent(prop, "(case still being generated)")
		defer ev.SetCurrent(prop, nil)
		body(t)
	}
}

// tier reports whether the thorough tier is running.
func thorough() bool { return os.Getenv("VERIF_TIER") == "thorough" }

// shard0 reports whether this process is the first (or only) shard: run-once work goes there.
func shard0() bool { s := os.Getenv("VERIF_SHARD"); return s == "" || s == "0" }

func hooksOn() bool { return os.Getenv("VERIF_HOOKS") != "0" }

// knownOpen reports whether the known finding with this key is listed as open.
func knownOpen(key string) bool {
	for _, k := range strings.Split(os.Getenv("VERIF_KNOWN_OPEN"), ",") {
		if k == key {
			return true
		}
	}
	return false
}

// A failure describes why an oracle rejected a case.
type failure struct {
	Msg string
}

func failf(format string, args ...any) *failure { return &failure{Msg: fmt.Sprintf(format, args...)} }

// replayers maps a property id to its plain (rapid-free) oracle over a saved case.
var replayers = map[string]func(raw json.RawMessage) *failure{}

// TestReplay re-executes one saved case: VERIF_REPLAY=<file> VERIF_PROP=<ID>.
func TestReplay(t *testing.T) {
	file, prop := os.Getenv("VERIF_REPLAY"), os.Getenv("VERIF_PROP")
	if file == "" {
		t.Skip("no VERIF_REPLAY")
	}
	b, err := os.ReadFile(file)
	if err != nil {
		t.Fatalf("REPLAY-HARNESS-ERROR: %v", err)
	}
	var doc struct {
		Property string          `json:"property"`
		Message  string          `json:"message"`
		Case     json.RawMessage `json:"case"`
	}
	if err := json.Unmarshal(b, &doc); err != nil {
		t.Fatalf("REPLAY-HARNESS-ERROR: %v", err)
	}
	if prop == "" {
		prop = doc.Property
	}
	f := replayers[prop]
	if f == nil {
		t.Fatalf("REPLAY-HARNESS-ERROR: no replayer for %s", prop)
	}
	if fl := f(doc.Case); fl != nil {
		t.Fatalf("replayed case fails: %s", fl.Msg)
	}
}

// TestRegress replays every saved case of one property (VERIF_REGRESS_DIR, VERIF_PROP):
// shrunk counterexamples of defects that were found and fixed, and hand-written corner cases.
// Each must pass; a failing file is reported as "REGRESS-FAIL file=<path>".
func TestRegress(t *testing.T) {
	dir, prop := os.Getenv("VERIF_REGRESS_DIR"), os.Getenv("VERIF_PROP")
	if dir == "" {
		t.Skip("no VERIF_REGRESS_DIR")
	}
	f := replayers[prop]
	ents, _ := os.ReadDir(dir)
	n := 0
	for _, e := range ents {
		if !strings.HasPrefix(e.Name(), prop+"-") || !strings.HasSuffix(e.Name(), ".json") {
			continue
		}
		path := dir + "/" + e.Name()
		b, err := os.ReadFile(path)
		if err != nil {
			t.Fatalf("REPLAY-HARNESS-ERROR: %v", err)
		}
		var doc struct {
			Case json.RawMessage `json:"case"`
		}
		if err := json.Unmarshal(b, &doc); err != nil || f == nil {
			t.Fatalf("REPLAY-HARNESS-ERROR: %s: %v", path, err)
		}
		n++
		if fl := f(doc.Case); fl != nil {
			if strings.Contains(fl.Msg, "REPLAY-HARNESS-ERROR") {
				t.Fatalf("REPLAY-HARNESS-ERROR: %s: %s", path, fl.Msg)
			}
			fmt.Printf("REGRESS-FAIL file=%s\n%s\n", path, fl.Msg)
			t.Fail()
		}
	}
	fmt.Printf("REGRESS-COUNT %d\n", n)
}

// guard runs f and converts a panic into a failure carrying the stack.
func guard(f func() *failure) (fl *failure) {
	defer func() {
		if r := recover(); r != nil {
			fl = failf("panic: %v\n%s", r, debug.Stack())
		}
	}()
	return f()
}

// report records a failing case and fails the rapid test.
func report(t *rapid.T, rec *ev.Recorder, c any, fl *failure) {
	rec.Fail(c, fl.Msg)
	rec.Flush()
	if strings.Contains(fl.Msg, "did not return within") {
		// A hang: the abandoned goroutine is still running (and may be allocating without bound), and
		// every shrink attempt would wait for the deadline again. The recorded case is the replay;
		// the process ends here.
		fmt.Fprintf(os.Stderr, "%s\n(hang: reported without shrinking)\n", fl.Msg)
		os.Exit(1)
	}
	t.Fatalf("%s", fl.Msg)
}

// finish is called at the end of a test function.
func finish(rec *ev.Recorder) { rec.Flush() }

// fixNil repairs what encoding/json does to a JSON null decoded into a *jv.V (it leaves the
// pointer nil instead of calling UnmarshalJSON).
func fixNil(v **jv.V) {
	if *v == nil {
		*v = jv.NullV()
	}
}

func fixNils(vs []*jv.V) {
	for i := range vs {
		fixNil(&vs[i])
	}
}

func mustJSON(v any) string {
	b, err := json.Marshal(v)
	if err != nil {
		return fmt.Sprintf("<%v>", err)
	}
	return string(b)
}
