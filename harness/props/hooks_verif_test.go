//go:build verif

package props

import (
	"hash/maphash"

	"github.com/google/jsonschema-go/jsonschema"

	"verif/repr"
)

var hashSeeds = []maphash.Seed{maphash.MakeSeed(), maphash.MakeSeed(), maphash.MakeSeed()}

func init() {
	// Equal(x,y) => hash(x) == hash(y): what makes the bucket algorithm of uniqueItems correct.
	hashLaw = func(x, y any) *failure {
		if !jsonschema.Equal(x, y) {
			return nil
		}
		for _, seed := range hashSeeds {
			if jsonschema.VerifHash(seed, x) != jsonschema.VerifHash(seed, y) {
				return failf("Equal(x,y) but hash(x) != hash(y): x=%s y=%s", repr.Describe(x), repr.Describe(y))
			}
		}
		return nil
	}
}

func init() {
	// In-place reference cycle detection over the resolved graph (guard only, never an oracle):
	// nodes = every schema reachable from the root through any field or reference; edges =
	// in-place applicators (same instance location) and $ref/$dynamicRef targets.
	inPlaceCycle = func(rs *jsonschema.Resolved) bool {
		refs, dyn := rs.VerifRefs()
		targets := map[*jsonschema.Schema][]*jsonschema.Schema{}
		for _, r := range refs {
			if r.Target != nil {
				targets[r.From] = append(targets[r.From], r.Target)
			}
			if r.Anchor != "" {
				targets[r.From] = append(targets[r.From], dyn[r.Anchor]...)
			}
		}
		inPlace := func(s *jsonschema.Schema) []*jsonschema.Schema {
			var out []*jsonschema.Schema
			out = append(out, s.AllOf...)
			out = append(out, s.AnyOf...)
			out = append(out, s.OneOf...)
			for _, x := range []*jsonschema.Schema{s.Not, s.If, s.Then, s.Else} {
				if x != nil {
					out = append(out, x)
				}
			}
			for _, x := range s.DependentSchemas {
				out = append(out, x)
			}
			for _, x := range s.DependencySchemas {
				out = append(out, x)
			}
			out = append(out, targets[s]...)
			return out
		}
		// all nodes
		var all []*jsonschema.Schema
		seen := map[*jsonschema.Schema]bool{}
		var collect func(s *jsonschema.Schema)
		collect = func(s *jsonschema.Schema) {
			if s == nil || seen[s] {
				return
			}
			seen[s] = true
			all = append(all, s)
			for _, c := range schemaChildren(s) {
				collect(c)
			}
			for _, c := range targets[s] {
				collect(c)
			}
		}
		collect(rs.Schema())
		color := map[*jsonschema.Schema]int{}
		var dfs func(s *jsonschema.Schema) bool
		dfs = func(s *jsonschema.Schema) bool {
			color[s] = 1
			for _, n := range inPlace(s) {
				if n == nil {
					continue
				}
				if color[n] == 1 {
					return true
				}
				if color[n] == 0 && dfs(n) {
					return true
				}
			}
			color[s] = 2
			return false
		}
		for _, s := range all {
			if color[s] == 0 && dfs(s) {
				return true
			}
		}
		return false
	}
}
