//go:build verif

package props

import (
	"hash/maphash"

	"github.com/google/jsonschema-go/jsonschema"

	"verif/repr"
)

var hashSeeds = []maphash.Seed{maphash.MakeSeed(), maphash.MakeSeed(), maphash.MakeSeed()}

func init() {
	// Equal(x,y) => hash(x) == hash(y): what makes the bucket algorithm of uniqueItems correct.
	hashLaw = func(x, y any) *failure {
		if !jsonschema.Equal(x, y) {
			return nil
		}
		for _, seed := range hashSeeds {
			if jsonschema.VerifHash(seed, x) != jsonschema.VerifHash(seed, y) {
				return failf("Equal(x,y) but hash(x) != hash(y): x=%s y=%s", repr.Describe(x), repr.Describe(y))
			}
		}
		return nil
	}
}
