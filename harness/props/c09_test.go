package props

// C09 — JSON accepted by an inferred schema decodes into the type.
//
// Generator: types of C04 minus std marshaler types; documents = valid encodings and every
// class of single-point mutation the property lists (drop a key, add an undeclared key, swap a
// value's JSON type, push an integer past the bound of its sized kind, null in a non-nullable
// position, wrong array length), plus free mutations. Integers are written without fraction
// or exponent and inside the range of the 64-bit type at that position.
// Oracle: (1) Validate == nil  =>  Decoder(DisallowUnknownFields).Decode(new T) == nil;
// (2) the targeted mutation classes that break a rule the property names must be rejected.

import (
	"bytes"
	"encoding/json"
	"math/big"
	"reflect"
	"strings"
	"testing"

	"github.com/google/jsonschema-go/jsonschema"
	"pgregory.net/rapid"

	"verif/ev"
	"verif/jv"
	"verif/sgen"
	"verif/tgen"
)

type c09Case struct {
	T          *tgen.TD `json:"type"`
	GoType     string   `json:"go_type,omitempty"`
	Doc        *jv.V    `json:"doc"`
	Class      string   `json:"mutation_class"`
	MustReject bool     `json:"must_reject"`
	Feature    string   `json:"feature,omitempty"`
}

type mutSite struct {
	class      string
	mustReject bool
	apply      func()
}

func optionalField(sf reflect.StructField) bool {
	tag := sf.Tag.Get("json")
	_, rest, _ := strings.Cut(tag, ",")
	for _, o := range strings.Split(rest, ",") {
		if o == "omitempty" || o == "omitzero" {
			return true
		}
	}
	return false
}

// jsonFields lists (json name, field) of the fields encoding/json handles for struct type t,
// for conflict-free types (the generator guarantees that outside known-finding cases).
func jsonFields(t reflect.Type) map[string]reflect.StructField {
	type cand struct {
		sf     reflect.StructField
		depth  int
		tagged bool
	}
	cands := map[string][]cand{}
	var walk func(t reflect.Type, depth int, prefix []int)
	walk = func(t reflect.Type, depth int, prefix []int) {
		for i := 0; i < t.NumField(); i++ {
			sf := t.Field(i)
			idx := append(append([]int{}, prefix...), i)
			tag := sf.Tag.Get("json")
			if tag == "-" {
				continue
			}
			tn, _, _ := strings.Cut(tag, ",")
			if sf.Anonymous {
				et := sf.Type
				if et.Kind() == reflect.Pointer {
					et = et.Elem()
				}
				if et.Kind() == reflect.Struct && !tgenValidTag(tn) {
					walk(et, depth+1, idx)
					continue
				}
			}
			if !sf.IsExported() && !tgen.EmbeddedStruct(sf) {
				continue
			}
			name := sf.Name
			tagged := tgenValidTag(tn)
			if tagged {
				name = tn
			}
			sf.Index = idx
			cands[name] = append(cands[name], cand{sf, depth, tagged})
		}
	}
	walk(t, 0, nil)
	// encoding/json's dominance rule: the shallowest candidate wins; among several at that
	// depth exactly one tagged candidate wins; otherwise the name is dropped.
	out := map[string]reflect.StructField{}
	for name, cs := range cands {
		min := cs[0].depth
		for _, c := range cs {
			if c.depth < min {
				min = c.depth
			}
		}
		var at, tagged []cand
		for _, c := range cs {
			if c.depth == min {
				at = append(at, c)
				if c.tagged {
					tagged = append(tagged, c)
				}
			}
		}
		switch {
		case len(at) == 1:
			out[name] = at[0].sf
		case len(tagged) == 1:
			out[name] = tagged[0].sf
		}
	}
	return out
}

func tgenValidTag(s string) bool { return tgen.ValidTagName(s) }

var (
	maxInt64  = new(big.Rat).SetInt64(9223372036854775807)
	minInt64  = new(big.Rat).SetInt64(-9223372036854775808)
	maxUint64 = new(big.Rat).SetInt(new(big.Int).SetUint64(18446744073709551615))
)

// collect walks type and document in parallel, gathering targeted mutation sites, and
// normalises integers to the property's domain (plain spelling; inside the 64-bit range of the
// type at that position).
func collect(typ reflect.Type, v *jv.V, set func(*jv.V), sites *[]mutSite, depth int) {
	for typ.Kind() == reflect.Pointer {
		typ = typ.Elem()
	}
	if depth > 10 {
		return
	}
	wrongType := func(admissible ...jv.Kind) {
		if v.K == jv.Null {
			return
		}
		cands := []*jv.V{jv.StrV("x"), jv.NumV("1"), jv.BoolV(true), jv.ArrV(), jv.ObjV()}
		for _, c := range cands {
			ok := true
			for _, a := range admissible {
				if c.K == a {
					ok = false
				}
			}
			if ok {
				cc := c
				*sites = append(*sites, mutSite{"wrong-json-type", true, func() { set(cc) }})
			}
		}
	}
	switch typ.Kind() {
	case reflect.Interface:
		return
	case reflect.Bool:
		wrongType(jv.Bool)
	case reflect.String:
		wrongType(jv.Str)
	case reflect.Float32, reflect.Float64:
		wrongType(jv.Num)
		if typ.Kind() == reflect.Float32 {
			*sites = append(*sites, mutSite{"float32-out-of-range", false, func() { set(jv.NumV("1e300")) }})
		}
	case reflect.Int, reflect.Int8, reflect.Int16, reflect.Int32, reflect.Int64,
		reflect.Uint, reflect.Uint8, reflect.Uint16, reflect.Uint32, reflect.Uint64, reflect.Uintptr:
		wrongType(jv.Num)
		*sites = append(*sites, mutSite{"fractional-number-for-integer", true, func() { set(jv.NumV("1.5")) }})
		bits := typ.Bits()
		signed := typ.Kind() >= reflect.Int && typ.Kind() <= reflect.Int64
		if bits < 64 && typ.Kind() != reflect.Int && typ.Kind() != reflect.Uint && typ.Kind() != reflect.Uintptr {
			hi := new(big.Int).Lsh(big.NewInt(1), uint(bits))
			if signed {
				hi = new(big.Int).Lsh(big.NewInt(1), uint(bits-1))
			}
			lo := new(big.Int).Neg(hi)
			lo.Sub(lo, big.NewInt(1))
			if !signed {
				lo = big.NewInt(-1)
			}
			h, l := hi.String(), lo.String()
			*sites = append(*sites, mutSite{"integer-past-upper-bound", true, func() { set(jv.NumV(h)) }})
			*sites = append(*sites, mutSite{"integer-past-lower-bound", true, func() { set(jv.NumV(l)) }})
		} else if !signed {
			*sites = append(*sites, mutSite{"negative-for-unsigned", true, func() { set(jv.NumV("-1")) }})
		}
	case reflect.Slice, reflect.Array:
		wrongType(jv.Arr)
		if typ.Kind() == reflect.Array && typ.Elem().Kind() == reflect.Uint8 && v.K != jv.Null {
			// encoding/json reads base64 text into byte slices only, never into byte arrays
			for _, b := range []string{"", "AQID", "AQIDBA==", "abcd"} {
				b := b
				*sites = append(*sites, mutSite{"base64-string-for-byte-array", true, func() { set(jv.StrV(b)) }})
			}
		}
		if v.K == jv.Arr {
			if typ.Kind() == reflect.Array {
				*sites = append(*sites, mutSite{"wrong-array-length", true, func() {
					if len(v.A) > 0 && depth%2 == 0 {
						v.A = v.A[:len(v.A)-1]
					} else if len(v.A) > 0 {
						v.A = append(v.A, v.A[0].Clone())
					} else {
						v.A = append(v.A, jv.NullV())
					}
				}})
			}
			for i := range v.A {
				i := i
				collect(typ.Elem(), v.A[i], func(n *jv.V) { v.A[i] = n }, sites, depth+1)
			}
		}
	case reflect.Map:
		wrongType(jv.Obj)
		if v.K == jv.Obj {
			for i := range v.O {
				i := i
				collect(typ.Elem(), v.O[i].V, func(n *jv.V) { v.O[i].V = n }, sites, depth+1)
			}
		}
	case reflect.Struct:
		wrongType(jv.Obj)
		if v.K != jv.Obj {
			return
		}
		fields := jsonFields(typ)
		*sites = append(*sites, mutSite{"add-undeclared-key", true, func() { v.Set("zz-undeclared", jv.NumV("1")) }})
		for _, name := range sortedKeys(fields) {
			name, sf := name, fields[name]
			if v.Has(name) {
				if !optionalField(sf) {
					*sites = append(*sites, mutSite{"drop-required-key", true, func() { v.Del(name) }})
				} else {
					*sites = append(*sites, mutSite{"drop-optional-key", false, func() { v.Del(name) }})
				}
				nullable := sf.Type.Kind() == reflect.Pointer || sf.Type.Kind() == reflect.Slice || sf.Type.Kind() == reflect.Interface
				if !nullable {
					*sites = append(*sites, mutSite{"null-in-non-nullable-position", false, func() { v.Set(name, jv.NullV()) }})
				}
				cur := v.Get(name)
				collect(sf.Type, cur, func(n *jv.V) { v.Set(name, n) }, sites, depth+1)
			}
		}
	}
}

// normaliseIntegers enforces the property's domain on a document, guided by the type where
// the shapes still match: integers in plain spelling and inside the 64-bit range of the type.
func normaliseIntegers(typ reflect.Type, v *jv.V) {
	for typ != nil && typ.Kind() == reflect.Pointer {
		typ = typ.Elem()
	}
	if v.K == jv.Num {
		if v.N.IsInt() {
			v.Text = v.N.Num().String()
			if typ != nil {
				switch typ.Kind() {
				case reflect.Int, reflect.Int8, reflect.Int16, reflect.Int32, reflect.Int64:
					if v.N.Cmp(maxInt64) > 0 {
						*v = *jv.NumV("9223372036854775807")
					}
					if v.N.Cmp(minInt64) < 0 {
						*v = *jv.NumV("-9223372036854775808")
					}
				case reflect.Uint, reflect.Uint8, reflect.Uint16, reflect.Uint32, reflect.Uint64, reflect.Uintptr:
					if v.N.Cmp(maxUint64) > 0 {
						*v = *jv.NumV("18446744073709551615")
					}
					if v.N.Cmp(minInt64) < 0 {
						*v = *jv.NumV("-1")
					}
				}
			}
		} else {
			v.Text = jv.RatText(v.N)
		}
		return
	}
	var elem func(k string) reflect.Type
	elem = func(string) reflect.Type { return nil }
	if typ != nil {
		switch typ.Kind() {
		case reflect.Slice, reflect.Array, reflect.Map:
			e := typ.Elem()
			elem = func(string) reflect.Type { return e }
		case reflect.Struct:
			fs := jsonFields(typ)
			elem = func(k string) reflect.Type {
				if sf, ok := fs[k]; ok {
					return sf.Type
				}
				return nil
			}
		}
	}
	switch v.K {
	case jv.Arr:
		for _, e := range v.A {
			normaliseIntegers(elem(""), e)
		}
	case jv.Obj:
		for _, m := range v.O {
			normaliseIntegers(elem(m.K), m.V)
		}
	}
}

func checkC09(c *c09Case, rec *ev.Recorder) (fl *failure, harnessErr string) {
	typ, err := tgen.Build(c.T)
	if err != nil {
		return nil, "cannot build type: " + err.Error()
	}
	c.GoType = typ.String()
	fl = guard(func() *failure {
		s, err := jsonschema.ForType(typ, nil)
		if err != nil {
			return failf("ForType(%s) fails: %v", c.GoType, err)
		}
		rs, err := s.Resolve(nil)
		if err != nil {
			return failf("Resolve rejects the schema inferred for %s: %v", c.GoType, err)
		}
		text := c.Doc.JSON()
		// decoded with UseNumber so that integers beyond 2^53 reach the validator exactly
		var inst any
		idec := json.NewDecoder(strings.NewReader(text))
		idec.UseNumber()
		if err := idec.Decode(&inst); err != nil {
			return failf("HARNESS: document does not decode into any: %v", err)
		}
		verr := rs.Validate(inst)
		dec := json.NewDecoder(bytes.NewReader([]byte(text)))
		dec.DisallowUnknownFields()
		derr := dec.Decode(reflect.New(typ).Interface())
		if rec != nil {
			q := "reject/decode-ok"
			switch {
			case verr == nil && derr == nil:
				q = "accept/decode-ok"
			case verr != nil && derr != nil:
				q = "reject/decode-fail"
			case verr == nil && derr != nil:
				q = "accept/decode-fail"
			}
			rec.Class("quadrant:" + q)
			rec.Class("mutation:" + c.Class)
		}
		if verr == nil && derr != nil {
			sb, _ := json.Marshal(s)
			return failf("the schema inferred for %s accepts a document that encoding/json cannot decode into it (unknown fields disallowed)\n document: %s\n decode error: %v\n schema: %s", c.GoType, text, derr, sb)
		}
		if c.MustReject && verr == nil {
			sb, _ := json.Marshal(s)
			return failf("mutation %q of a valid encoding of %s must be rejected by the inferred schema but is accepted\n document: %s\n schema: %s", c.Class, c.GoType, text, sb)
		}
		return nil
	})
	return fl, ""
}

func TestC09(t *testing.T) {
	rec := ev.For("C09")
	defer finish(rec)
	rec.Describe("case = (type from the C04 generator without std marshaler types; document = json.Marshal of a generated value, then one targeted single-point mutation chosen by walking type and document in parallel — drop a required/optional key, add an undeclared key, replace a value by a JSON type inadmissible at that position, push an integer just past either bound of its sized kind, negative for unsigned, fraction for integer, null in a non-nullable position, wrong array length, 1e300 for float32 — or a free jv.Mutate step, or none). Oracle: accept => Decoder(DisallowUnknownFields) decodes into new(T); mutations that break a rule named by the property must be rejected. Non-trivial: a mutated document. Distinct = distinct (type, document).",
		"integers are written without fraction or exponent and clamped into the 64-bit range of the Go type at their position (the property's stated domain)",
		"null in a non-nullable position and dropped optional keys only feed the implication (encoding/json accepts null anywhere)",
		"types with Go-name/JSON-name conflicts occur only in the 5% known-finding cases")
	rapid.Check(t, func(t *rapid.T) {
		c := &c09Case{}
		o := tgen.Opts{MaxDepth: rapid.IntRange(1, 3).Draw(t, "depth")}
		if rapid.IntRange(0, 19).Draw(t, "feature") == 0 {
			c.Feature = "nameconflict"
			o.NameConflicts = true
		}
		c.T = tgen.GenTD(t, o)
		typ, err := tgen.Build(c.T)
		if err != nil {
			rec.Class("discard:reflect-cannot-build")
			t.Skip("unbuildable")
		}
		v := tgen.Value(t, typ, tgen.VOpts{})
		p := reflect.New(typ)
		p.Elem().Set(v)
		b, err := json.Marshal(p.Interface())
		if err != nil {
			rec.Class("discard:json.Marshal-error")
			t.Skip("unmarshalable value")
		}
		doc, err := jv.Parse(string(b))
		if err != nil {
			t.Fatalf("harness: %v", err)
		}
		c.Doc = doc
		c.Class = "none"
		switch k := rapid.IntRange(0, 9).Draw(t, "mutkind"); {
		case k <= 5:
			var sites []mutSite
			collect(typ, c.Doc, func(n *jv.V) { c.Doc = n }, &sites, 0)
			if len(sites) > 0 {
				s := sites[rapid.IntRange(0, len(sites)-1).Draw(t, "site")]
				s.apply()
				c.Class, c.MustReject = s.class, s.mustReject
			}
		case k <= 7:
			c.Doc = jv.Mutate(t, c.Doc, jv.Opts{MaxDepth: 1, MaxLen: 2})
			c.Class = "free-mutation"
		case k == 8:
			// a document built from the inferred schema itself (every property the schema declares may
			// appear): whatever the schema accepts must decode
			if s, err := jsonschema.ForType(typ, nil); err == nil && s != nil {
				if sb, err := json.Marshal(s); err == nil {
					if sd, err := jv.Parse(string(sb)); err == nil {
						c.Doc = sgen.Satisfy(t, sd, sd, 4)
						c.Class = "schema-directed-document"
					}
				}
			}
		}
		normaliseIntegers(typ, c.Doc)
		fl, herr := checkC09(c, rec)
		if herr != "" || isHarnessFailure(fl) {
			rec.Inconclusive("harness: " + herr)
			rec.Flush()
			t.Fatalf("harness: %s %v", herr, fl)
		}
		rec.Eval(c.Class != "none", []byte(c.GoType+"\x00"+c.Doc.JSON()), func() any {
			return map[string]any{"type": c.GoType, "document": c.Doc, "mutation": c.Class, "must_reject": c.MustReject}
		})
		if fl != nil {
			if c.Feature == "nameconflict" && knownOpen("struct-fields-by-go-visibility") && tgen.AnyNameConflict(typ) {
				rec.Known("struct-fields-by-go-visibility", knownWhat["struct-fields-by-go-visibility"])
				rec.Case()
				return
			}
			report(t, rec, c, fl)
		}
		rec.Case()
	})
}

func init() {
	replayers["C09"] = func(raw json.RawMessage) *failure {
		var c c09Case
		if err := json.Unmarshal(raw, &c); err != nil {
			return failf("REPLAY-HARNESS-ERROR: %v", err)
		}
		fixNil(&c.Doc)
		fl, herr := checkC09(&c, nil)
		if herr != "" {
			return failf("REPLAY-HARNESS-ERROR: %s", herr)
		}
		return fl
	}
}
