package props

// C10 — Every entry point returns a value or an error - never a panic or a hang.
//
// Sub-targets (each under recover() and a 20 s deadline, each case journalled first so that a
// fatal runtime error still leaves a replayable case):
//   unmarshal: near-valid schema documents (a valid grammar document with 1-3 type confusions,
//              truncation, hostile constants), then Resolve, then Validate/ApplyDefaults
//   graph:     arbitrary Schema graphs (sstruct wild: shared and cyclic pointers, nil children,
//              malformed URIs/regexps/anchors, conflicting fields), odd BaseURIs, odd loaders
//   for:       For/ForType on arbitrary types incl. recursive and unsupported ones
//   universe:  Resolve on C03 universes with loaders that err, return the wrong document,
//              return the root itself
// Validate/ApplyDefaults run on instances of any shape in every C08 representation, on every
// Resolved that passes the in-place-reference-cycle guard (the property's proviso).

import (
	"encoding/json"
	"fmt"
	"math"
	"net/url"
	"reflect"
	"strings"
	"testing"
	"time"

	"github.com/google/jsonschema-go/jsonschema"
	"pgregory.net/rapid"

	"verif/ev"
	"verif/jv"
	"verif/refmodel"
	"verif/repr"
	"verif/sgen"
	"verif/sstruct"
	"verif/tgen"
	"verif/ugen"
)

type c10Case struct {
	Target    string         `json:"target"`
	Bytes     string         `json:"bytes,omitempty"`
	Spec      *sstruct.Spec  `json:"spec,omitempty"`
	BaseURI   string         `json:"base_uri,omitempty"`
	Loader    string         `json:"loader,omitempty"` // nil | error | wrong | self | docs | nilnil
	Defaults  bool           `json:"validate_defaults,omitempty"`
	T         *tgen.TD       `json:"type,omitempty"`
	Ignore    bool           `json:"ignore,omitempty"`
	U         *ugen.Universe `json:"universe,omitempty"`
	Instances []*jv.V        `json:"instances,omitempty"`
	Choices   [][]int        `json:"choices,omitempty"`
	// Special: a Go float no JSON text denotes (nan | +inf | -inf | nan32), validated on its own
	// and inside slices and maps. There is no right verdict for it; the call has to return.
	Special string `json:"special,omitempty"`
}

func specialInstances(kind string) []any {
	var f any
	switch kind {
	case "nan":
		f = math.NaN()
	case "+inf":
		f = math.Inf(1)
	case "-inf":
		f = math.Inf(-1)
	case "nan32":
		f = float32(math.NaN())
	default:
		return nil
	}
	out := []any{f, []any{1.0, f, f}, map[string]any{"a": f, "b": []any{f}}, &f}
	if g, ok := f.(float64); ok {
		out = append(out, []float64{g, 1, g}, map[string]float64{"a": g})
	}
	return out
}

// inPlaceCycle is set by the verif-tagged file: it reports whether the resolved graph has a
// cycle made solely of in-place edges (applicators on the same instance and references).
var inPlaceCycle func(rs *jsonschema.Resolved) bool

func hasRefs(s *jsonschema.Schema, depth int) bool {
	found := false
	seen := map[*jsonschema.Schema]bool{}
	var walk func(x *jsonschema.Schema)
	walk = func(x *jsonschema.Schema) {
		if x == nil || seen[x] || found {
			return
		}
		seen[x] = true
		if x.Ref != "" || x.DynamicRef != "" {
			found = true
			return
		}
		v := reflect.ValueOf(x).Elem()
		for i := 0; i < v.NumField(); i++ {
			switch f := v.Field(i).Interface().(type) {
			case *jsonschema.Schema:
				walk(f)
			case []*jsonschema.Schema:
				for _, e := range f {
					walk(e)
				}
			case map[string]*jsonschema.Schema:
				for _, e := range f {
					walk(e)
				}
			}
		}
	}
	walk(s)
	return found
}

// resolveGuarded calls Resolve. ValidateDefaults makes Resolve itself validate, so it is only
// switched on after a plain Resolve succeeded and the in-place-cycle guard passed (a schema
// such as {"$ref":"#","default":1} is outside the property's proviso).
func resolveGuarded(s *jsonschema.Schema, opts *jsonschema.ResolveOptions) (*jsonschema.Resolved, error) {
	if !opts.ValidateDefaults {
		return s.Resolve(opts)
	}
	plain := *opts
	plain.ValidateDefaults = false
	rs, err := s.Resolve(&plain)
	if err != nil {
		// a schema that Resolve refuses is refused with ValidateDefaults as well (no default is
		// ever validated, so the proviso about reference cycles does not come into play): the
		// call has to return there too
		return s.Resolve(opts)
	}
	if inPlaceCycle != nil && hooksOn() {
		if inPlaceCycle(rs) {
			return rs, nil
		}
	} else if hasRefs(s, 0) {
		return rs, nil
	}
	return s.Resolve(opts)
}

func exerciseResolved(rs *jsonschema.Resolved, root *jsonschema.Schema, c *c10Case, rec *ev.Recorder) *failure {
	if inPlaceCycle != nil && hooksOn() {
		if inPlaceCycle(rs) {
			if rec != nil {
				rec.Class("validate:skipped-in-place-reference-cycle")
			}
			return nil
		}
	} else if hasRefs(root, 0) {
		if rec != nil {
			rec.Class("validate:skipped-no-hooks-and-has-refs")
		}
		return nil
	}
	for i, v := range c.Instances {
		x := (&repr.Builder{C: &repr.Script{Seq: c.Choices[i]}}).Build(v)
		var verr error
		if f := guard(func() *failure { verr = rs.Validate(x); return nil }); f != nil {
			return failf("Validate panics on instance %s (as %s)\n%s", v.JSON(), repr.Describe(x), f.Msg)
		}
		if rec != nil {
			rec.ClassIf(verr == nil, "validate:accept")
			rec.ClassIf(verr != nil, "validate:reject")
		}
		y := (&repr.Builder{C: &repr.Script{Seq: c.Choices[i]}}).Build(v)
		if f := guard(func() *failure { _ = rs.ApplyDefaults(&y); return nil }); f != nil {
			return failf("ApplyDefaults panics on instance %s (as %s)\n%s", v.JSON(), repr.Describe(y), f.Msg)
		}
	}
	for _, x := range specialInstances(c.Special) {
		if f := guard(func() *failure { _ = rs.Validate(x); return nil }); f != nil {
			return failf("Validate panics on an instance holding the float %s: %#v\n%s", c.Special, x, f.Msg)
		}
		if f := guard(func() *failure { _ = rs.ApplyDefaults(&x); return nil }); f != nil {
			return failf("ApplyDefaults panics on an instance holding the float %s: %#v\n%s", c.Special, x, f.Msg)
		}
		if rec != nil {
			rec.Class("validate:non-finite-float")
		}
	}
	return nil
}

func checkC10(c *c10Case, rec *ev.Recorder) *failure {
	fl, hung := withDeadline(60*time.Second, func() *failure { return runC10(c, rec) })
	if hung {
		return failf("target %q did not return within 60s", c.Target)
	}
	return fl
}

// c10Deep is set when the last case got past the first validation layer.
var c10Deep bool

func runC10(c *c10Case, rec *ev.Recorder) *failure {
	c10Deep = false
	cls := func(s string) {
		switch s {
		case "unmarshal:ok", "graph-resolve:ok", "for:ok", "universe-resolve:ok":
			c10Deep = true
		}
		if rec != nil {
			rec.Class(s)
		}
	}
	switch c.Target {
	case "unmarshal":
		var s jsonschema.Schema
		var err error
		if f := guard(func() *failure { err = json.Unmarshal([]byte(c.Bytes), &s); return nil }); f != nil {
			return failf("Unmarshal panics on %q\n%s", c.Bytes, f.Msg)
		}
		if err != nil {
			cls("unmarshal:error")
			return nil
		}
		cls("unmarshal:ok")
		var rs *jsonschema.Resolved
		if f := guard(func() *failure {
			rs, err = resolveGuarded(&s, &jsonschema.ResolveOptions{ValidateDefaults: c.Defaults})
			return nil
		}); f != nil {
			return failf("Resolve panics on the unmarshaled document %q\n%s", c.Bytes, f.Msg)
		}
		if err != nil {
			cls("resolve:error")
			return nil
		}
		cls("resolve:ok")
		if f := exerciseResolved(rs, &s, c, rec); f != nil {
			return failf("%s\n document: %s", f.Msg, c.Bytes)
		}
	case "graph":
		s := sstruct.Build(c.Spec)
		opts := &jsonschema.ResolveOptions{BaseURI: c.BaseURI, ValidateDefaults: c.Defaults}
		switch c.Loader {
		case "error":
			opts.Loader = func(*url.URL) (*jsonschema.Schema, error) { return nil, fmt.Errorf("nope") }
		case "wrong":
			opts.Loader = func(*url.URL) (*jsonschema.Schema, error) {
				return &jsonschema.Schema{ID: "http://somewhere.else/else.json", Type: "string", Defs: map[string]*jsonschema.Schema{"a": {Anchor: "a"}}}, nil
			}
		case "nilnil":
			opts.Loader = func(*url.URL) (*jsonschema.Schema, error) { return nil, nil }
		case "self":
			// a finite self-referential universe: the root is handed out for the first three URIs only
			// (relative $id values inside it would otherwise spawn an unbounded sequence of new URIs)
			calls := 0
			opts.Loader = func(*url.URL) (*jsonschema.Schema, error) {
				calls++
				if calls > 3 {
					return nil, fmt.Errorf("no more documents")
				}
				return s, nil
			}
		}
		var rs *jsonschema.Resolved
		var err error
		if f := guard(func() *failure { rs, err = resolveGuarded(s, opts); return nil }); f != nil {
			return failf("Resolve panics on a Schema graph (base %q, loader %s)\n spec: %s\n%s", c.BaseURI, c.Loader, mustJSON(c.Spec), f.Msg)
		}
		if err != nil {
			cls("graph-resolve:error")
			return nil
		}
		cls("graph-resolve:ok")
		if f := exerciseResolved(rs, s, c, rec); f != nil {
			return failf("%s\n spec: %s", f.Msg, mustJSON(c.Spec))
		}
	case "for":
		typ, err := tgen.Build(c.T)
		if err != nil {
			return nil
		}
		if f := guard(func() *failure {
			s, err := jsonschema.ForType(typ, &jsonschema.ForOptions{IgnoreInvalidTypes: c.Ignore})
			if err == nil && s != nil {
				if _, err := s.Resolve(nil); err != nil {
					return failf("Resolve rejects ForType(%s): %v", typ, err)
				}
				cls("for:ok")
			} else {
				cls("for:error-or-nil")
			}
			return nil
		}); f != nil {
			return failf("ForType(%s) (ignore=%v): %s", typ, c.Ignore, f.Msg)
		}
	case "universe":
		u := c.U
		relinkAliases(u)
		var s jsonschema.Schema
		if err := json.Unmarshal([]byte(u.Root.JSON()), &s); err != nil {
			return nil
		}
		var log []string
		opts := &jsonschema.ResolveOptions{BaseURI: c.BaseURI}
		base := loggingLoader(u, &log)
		n := 0
		switch c.Loader {
		case "docs":
			opts.Loader = base
		case "error":
			opts.Loader = func(x *url.URL) (*jsonschema.Schema, error) {
				n++
				if n%2 == 0 {
					return nil, fmt.Errorf("flaky")
				}
				return base(x)
			}
		case "wrong":
			opts.Loader = func(x *url.URL) (*jsonschema.Schema, error) {
				// serve the documents rotated by one: every URI gets some other document
				ks := sortedKeys(u.Docs)
				if len(ks) == 0 {
					return &jsonschema.Schema{}, nil
				}
				for i, k := range ks {
					if k == x.String() {
						y, _ := url.Parse(ks[(i+1)%len(ks)])
						return base(y)
					}
				}
				// unknown URIs fail, which keeps the universe finite
				return nil, fmt.Errorf("no such document %s", x)
			}
		case "nilnil":
			// every other call hands back no schema and no error
			opts.Loader = func(x *url.URL) (*jsonschema.Schema, error) {
				n++
				if n%2 == 0 {
					return nil, nil
				}
				return base(x)
			}
		case "self":
			calls := 0
			opts.Loader = func(*url.URL) (*jsonschema.Schema, error) {
				calls++
				if calls > 3 {
					return nil, fmt.Errorf("no more documents")
				}
				return &s, nil
			}
		}
		var rs *jsonschema.Resolved
		var err error
		if f := guard(func() *failure { rs, err = s.Resolve(opts); return nil }); f != nil {
			return failf("Resolve panics on a universe (base %q, loader %s)\n root: %s\n docs: %s\n%s", c.BaseURI, c.Loader, u.Root.JSON(), mustJSON(u.Docs), f.Msg)
		}
		if err != nil {
			cls("universe-resolve:error")
			return nil
		}
		cls("universe-resolve:ok")
		if f := exerciseResolved(rs, &s, c, rec); f != nil {
			return failf("%s\n root: %s\n docs: %s", f.Msg, u.Root.JSON(), mustJSON(u.Docs))
		}
	}
	return nil
}

func isCyclicSpec(sp *sstruct.Spec) bool {
	cyc := false
	var walk func(x *sstruct.Spec, path map[int]bool)
	walk = func(x *sstruct.Spec, path map[int]bool) {
		if x == nil || x.IsNil || cyc {
			return
		}
		if x.Alias > 0 {
			if path[x.Alias] {
				cyc = true
			}
			return
		}
		path[x.ID] = true
		for _, f := range x.Fields {
			if f.Sub != nil {
				walk(f.Sub, path)
			}
			for _, s := range f.Subs {
				walk(s, path)
			}
			for _, s := range f.SubMap {
				walk(s, path)
			}
		}
		delete(path, x.ID)
	}
	walk(sp, map[int]bool{})
	return cyc
}

var hostileSnippets = []string{
	`{"minLength":1e400}`, `{"minLength":-1}`, `{"minLength":2147483648}`, `{"type":7}`, `{"type":[1]}`, `{"items":7}`, `{"required":"a"}`,
	`{"properties":[]}`, `{"properties":{"a":7}}`, `{"enum":7}`, `{"const":{"a":[null]}}`, `{"dependencies":{"a":7}}`, `{"dependencies":{"a":[1]}}`,
	`{"$ref":7}`, `{"$ref":"#/properties/a"}`, `{"$ref":"#/$defs/a/not"}`, `{"$ref":"#/allOf/-1"}`, `{"$ref":"%zz"}`, `{"$ref":"http://[::1"}`, `{"$id":"#a#b"}`,
	`{"$dynamicRef":"#nope"}`, `{"$anchor":"a","$dynamicAnchor":"a"}`, `{"pattern":"("}`, `{"patternProperties":{"(":true}}`, `{"multipleOf":0}`,
	`{"multipleOf":-1}`, `{"default":{"a":`, `null`, `[]`, `7`, `"str"`, `{"$schema":7}`, `{"$vocabulary":{"a":true}}`, `{"allOf":[null]}`, `{"not":null}`,
	`{"properties":{"a":null}}`, `{"items":[null]}`, `{"type":"object","type":"string"}`, `{"\u0000":1}`, `{"minContains":1.5}`, `{"maxItems":"3"}`,
	`{"uniqueItems":true}`, `{"items":{"uniqueItems":true}}`, `{"const":[[1,2],[1,2]]}`, `{"enum":[[1],[1,2],{"a":[1]},null]}`, `{"const":{"a":[1,2]}}`,
	`{"additionalProperties":{"uniqueItems":true},"uniqueItems":true}`, `{"contains":{"const":[1,2]},"uniqueItems":true}`,
	`{"minimum":1,"$ref":"#/minimum/type"}`, `{"maxLength":1,"allOf":[{"$ref":"#/maxLength/items"}]}`, `{"const":{"properties":{}},"allOf":[{"$ref":"#/const/properties"}]}`,
	`{"default":{"not":{}},"allOf":[{"$ref":"#/default/not"}]}`, `{"type":["string"],"allOf":[{"$ref":"#/type/0"}]}`, `{"title":"x","allOf":[{"$ref":"#/title/0"}]}`,
	`{"allOf":[true,{"$ref":"#/allOf/9223372036854775808"}]}`, `{"prefixItems":[{}],"allOf":[{"$ref":"#/prefixItems/18446744073709551615"}]}`, `{"anyOf":[{}],"$ref":"#/anyOf/4294967296"}`,
	`{"if":false,"then":false}`, `{"unevaluatedItems":false,"prefixItems":[],"contains":{}}`, `{"$defs":{"a":{"$ref":"#/$defs/a"}},"$ref":"#/$defs/a"}`,
}

func genC10(t *rapid.T) *c10Case {
	c := &c10Case{}
	n := func(k int, l string) int { return rapid.IntRange(0, k-1).Draw(t, l) }
	instOpts := jv.Opts{MaxDepth: 3, MaxLen: 3, Wide: true}
	addInstances := func(doc *jv.V) {
		k := 1 + n(3, "ninst")
		for i := 0; i < k; i++ {
			var v *jv.V
			switch {
			case doc != nil && n(2, "directed") == 0:
				v = sgen.Satisfy(t, doc, doc, 2)
			case n(4, "dupes") == 0:
				// arrays with planted equal-but-not-identical duplicates, possibly nested in an object
				v = genUniqueArray(t, instOpts)
				if n(3, "wrapdupes") == 0 {
					v = jv.ObjV(jv.Member{K: "a", V: v})
				}
			default:
				v = jv.Gen(instOpts).Draw(t, "inst")
			}
			l := &repr.Logger{In: repr.RapidChooser{T: t}}
			(&repr.Builder{C: l}).Build(v)
			c.Instances = append(c.Instances, v)
			c.Choices = append(c.Choices, l.Log)
		}
	}
	if n(6, "special") == 0 {
		c.Special = rapid.SampledFrom([]string{"nan", "+inf", "-inf", "nan32"}).Draw(t, "specialkind")
	}
	switch n(13, "target") {
	case 11:
		// defaults-centric: schemas with `default` at any depth of properties meeting instances of any
		// shape in any representation (typed maps, named string key types): ApplyDefaults assigns
		// decoded defaults into whatever container the caller handed in
		c.Target = "unmarshal"
		doc := genC15Schema(t, 1+n(3, "ddepth"))
		c.Bytes = doc.JSON()
		c.Defaults = n(2, "vd") == 0
		for i, k := 0, 1+n(3, "ninst"); i < k; i++ {
			v := genC15Instance(t, doc, 3)
			l := &repr.Logger{In: repr.RapidChooser{T: t}}
			(&repr.Builder{C: l}).Build(v)
			c.Instances = append(c.Instances, v)
			c.Choices = append(c.Choices, l.Log)
		}
	case 10:
		// equality-centric: uniqueItems / const / enum meeting containers in every representation
		// (arrays of arrays, equal-but-not-identical duplicates), since those keywords walk the
		// instance with reflection on both operands
		c.Target = "unmarshal"
		arr := genUniqueArray(t, jv.Opts{MaxDepth: 2, MaxLen: 3})
		if len(arr.A) > 0 && n(2, "nested") == 0 {
			// duplicate a container element so that two equal containers meet
			var conts []*jv.V
			for _, e := range arr.A {
				if e.K == jv.Arr || e.K == jv.Obj {
					conts = append(conts, e)
				}
			}
			if len(conts) > 0 {
				arr.A = append(arr.A, jv.EquivalentCopy(t, conts[n(len(conts), "dupcont")]))
			} else {
				arr.A = append(arr.A, jv.ArrV(jv.NumV("1"), jv.NumV("2")), jv.ArrV(jv.NumV("1"), jv.NumV("2.0")))
			}
		}
		switch n(4, "eqschema") {
		case 0:
			c.Bytes = `{"uniqueItems":true}`
		case 1:
			c.Bytes = `{"const":` + jv.EquivalentCopy(t, arr).JSON() + `}`
		case 2:
			c.Bytes = `{"enum":[1,` + jv.EquivalentCopy(t, arr).JSON() + `,"x"]}`
		default:
			c.Bytes = `{"items":{"uniqueItems":true},"uniqueItems":true,"contains":{"const":[1,2]}}`
		}
		for i := 0; i < 4; i++ {
			l := &repr.Logger{In: repr.RapidChooser{T: t}}
			(&repr.Builder{C: l}).Build(arr)
			c.Instances = append(c.Instances, arr)
			c.Choices = append(c.Choices, l.Log)
		}
	case 0, 1, 2:
		c.Target = "unmarshal"
		c.Defaults = n(3, "vd") == 0
		if n(5, "hostile") == 0 {
			c.Bytes = rapid.SampledFrom(hostileSnippets).Draw(t, "snippet")
			addInstances(nil)
			break
		}
		d := refmodel.D2020
		if n(4, "d7") == 0 {
			d = refmodel.D7
		}
		doc := sgen.Draw(t, sgen.Opts{Draft: d, MaxDepth: 3})
		// type confusions
		for i, k := 0, n(4, "nconf"); i < k; i++ {
			var objs []*jv.V
			doc.Walk(func(x *jv.V) {
				if x.K == jv.Obj && len(x.O) > 0 {
					objs = append(objs, x)
				}
			})
			if len(objs) == 0 {
				break
			}
			o := objs[n(len(objs), "confobj")]
			m := &o.O[n(len(o.O), "confmember")]
			switch n(5, "confkind") {
			case 0:
				m.V = jv.NullV()
			case 1:
				m.V = jv.Gen(jv.Opts{MaxDepth: 2}).Draw(t, "confval")
			case 2:
				m.V = jv.ArrV(m.V)
			case 3:
				m.V = jv.ObjV(jv.Member{K: "a", V: m.V})
			default:
				m.K = rapid.SampledFrom([]string{"$ref", "$dynamicRef", "$id", "$anchor", "items", "type", "properties", "dependencies", "$schema", "default"}).Draw(t, "confkey")
			}
		}
		if n(4, "ptrwalk") == 0 {
			// a $ref whose pointer walks to an arbitrary location of the document — below numbers, strings,
			// const/default/enum values, type lists — optionally one segment further
			ptr := "/$defs/d"
			cur := doc
			for steps := 0; steps < 6; steps++ {
				if cur.K == jv.Obj && len(cur.O) > 0 && n(5, "walkstop") > 0 {
					m := cur.O[n(len(cur.O), "walkmember")]
					ptr += "/" + refmodel.EscapePtr(m.K)
					cur = m.V
				} else if cur.K == jv.Arr && len(cur.A) > 0 && n(5, "walkstop") > 0 {
					i := n(len(cur.A), "walkindex")
					ptr += fmt.Sprintf("/%d", i)
					cur = cur.A[i]
				} else {
					break
				}
			}
			if n(2, "walkextra") == 0 {
				ptr += "/" + rapid.SampledFrom([]string{"type", "0", "properties", "-", "items", "not", "", "minimum", "const", "9223372036854775808", "18446744073709551615", "4294967296", "-1", "+0"}).Draw(t, "walkextraseg")
			}
			w := jv.ObjV()
			if sv := doc.Get("$schema"); doc.K == jv.Obj && sv != nil {
				w.Set("$schema", sv.Clone())
			}
			w.Set("allOf", jv.ArrV(jv.ObjV(jv.Member{K: "$ref", V: jv.StrV("#" + ptr)})))
			w.Set("$defs", jv.ObjV(jv.Member{K: "d", V: doc}))
			doc = w
		}
		c.Bytes = doc.JSON()
		if n(8, "truncate") == 0 && len(c.Bytes) > 2 {
			c.Bytes = c.Bytes[:1+n(len(c.Bytes)-1, "cut")]
		}
		if n(10, "deepnest") == 0 {
			c.Bytes = `{"const":` + strings.Repeat("[", 3000) + strings.Repeat("]", 3000) + `}`
		}
		addInstances(doc)
	case 3, 4, 5:
		c.Target = "graph"
		// half of the graphs are wild, half satisfy the documented rules (so that Resolve succeeds
		// and Validate/ApplyDefaults are reached with arbitrary instances)
		c.Spec = sstruct.Gen(t, sstruct.Opts{MaxDepth: 1 + n(2, "depth"), Wild: n(2, "wild") == 0, Density: 1 + n(3, "density")})
		c.BaseURI = rapid.SampledFrom([]string{"", "", "http://b.test/root.json", "http://b.test/root.json#frag", "::garbage", "relative/path.json", "urn:x:y", "%zz"}).Draw(t, "base")
		c.Loader = rapid.SampledFrom([]string{"nil", "error", "wrong", "self", "nilnil"}).Draw(t, "loader")
		c.Defaults = n(3, "vd") == 0
		addInstances(nil)
	case 6, 7:
		c.Target = "for"
		c.T = tgen.GenTD(t, tgen.Opts{MaxDepth: 1 + n(3, "depth"), Std: true, Recursive: true, Unsupported: n(2, "unsup") == 0, NameConflicts: true, BigInt: true})
		c.Ignore = n(2, "ignore") == 0
	default:
		c.Target = "universe"
		c.U = ugen.Gen(t)
		if n(5, "mixeddrafts") == 0 {
			// documents of different drafts referring to each other (and to a $schema-less one)
			c.U = genMixedUniverse(t)
			c.U.Routes = []ugen.Route{{Path: []string{"p0"}, Intended: "x"}, {Path: []string{"p1", "x"}, Intended: "1"}, {Path: []string{"p2"}, Intended: "y"}}
		}
		c.BaseURI = c.U.BaseURI
		if n(6, "oddbase") == 0 {
			c.BaseURI = rapid.SampledFrom([]string{"", "http://b.test/x.json#f", "rel.json", "::"}).Draw(t, "ubase")
		}
		c.Loader = rapid.SampledFrom([]string{"docs", "docs", "docs", "docs", "error", "wrong", "self", "nil", "nilnil"}).Draw(t, "uloader")
		if n(4, "faults") == 0 {
			for _, k := range sortedKeys(c.U.Docs) {
				if n(2, "faulty") == 0 {
					c.U.Faults = append(c.U.Faults, k)
				}
			}
		}
		for _, r := range c.U.Routes {
			v := ugen.Instance(r.Path, r.Intended)
			l := &repr.Logger{In: repr.RapidChooser{T: t}}
			(&repr.Builder{C: l}).Build(v)
			c.Instances = append(c.Instances, v)
			c.Choices = append(c.Choices, l.Log)
		}
	}
	return c
}

func TestC10(t *testing.T) {
	rec := ev.For("C10")
	defer finish(rec)
	rec.Describe("case = one of four targets. unmarshal: a grammar-generated schema document of either draft with 0-3 type confusions (value replaced by null / arbitrary JSON / wrapped in array or object, key renamed to $ref/$id/items/...), truncation, a 3000-deep nesting or one of ~50 hostile snippets (malformed keyword values, dangling references, equality-centric schemas); then Resolve (optionally ValidateDefaults), then Validate and ApplyDefaults on 1-3 instances of any shape in any Go representation. graph: a Schema graph from the reflection-driven generator in wild mode (shared and cyclic subschema pointers, nil children in slices/maps, malformed URIs/regexps/anchors, conflicting fields, bad default bytes), BaseURI empty/absolute/with fragment/garbage/relative/urn, Loader nil/erroring/returning a wrong document/returning the root itself. for: ForType on arbitrary types incl. recursive and mutually recursive pool types and unsupported kinds at any depth, both IgnoreInvalidTypes settings. universe: a C03 universe with loaders that fail every other call, serve rotated documents, return the root, or are nil; odd BaseURIs; fault sets. Oracle: the call returns (recover + 60s deadline); every case is journalled before it runs so a fatal error leaves a replay. Non-trivial: the input got past the first validation layer (Unmarshal succeeded / Resolve succeeded / ForType reached a struct). Distinct = distinct case.",
		"out of domain and never generated: loaders returning (nil, nil), infinite universes, nil *Schema receivers, non-pointer arguments to ApplyDefaults, non-JSON-shaped instances, and Validate on graphs with an in-place reference cycle (the property's proviso; detected through the verif hook, without hooks Validate runs only on reference-free graphs)")
	rapid.Check(t, watched("C10", propC10(rec)))
}

func init() {
	replayers["C10"] = func(raw json.RawMessage) *failure {
		var c c10Case
		if err := json.Unmarshal(raw, &c); err != nil {
			return failf("REPLAY-HARNESS-ERROR: %v", err)
		}
		fixNils(c.Instances)
		return checkC10(&c, nil)
	}
}

// propC10 is the property body, shared by TestC10 (rapid) and FuzzC10 (native fuzzing over
// rapid's bit stream).
func propC10(rec *ev.Recorder) func(t *rapid.T) {
	return func(t *rapid.T) {
		c := genC10(t)
		ev.Journal("C10", c)
		fl := checkC10(c, rec)
		rec.Class("target:" + c.Target)
		nt := c10Deep
		rec.Eval(nt, ev.JSON(c), func() any {
			if c.Target == "unmarshal" && len(c.Bytes) > 400 {
				return map[string]any{"target": c.Target, "bytes_prefix": c.Bytes[:400]}
			}
			return c
		})
		if fl != nil {
			report(t, rec, c, fl)
		}
		rec.Case()
	}
}
