package props

// C04 — The inferred schema accepts the JSON encoding of every value of the type.
//
// Generator: tgen types (reflect.StructOf/SliceOf/... over a pool of declared named types) x
// tgen values; JSON = json.Marshal(&v). Oracle: Resolve(ForType(T)) validates decode(JSON).
// ForType may fail only for types the documentation lists as unsupported or cyclic.

import (
	"encoding/json"
	"reflect"
	"strings"
	"testing"

	"github.com/google/jsonschema-go/jsonschema"
	"pgregory.net/rapid"

	"verif/ev"
	"verif/tgen"
)

type c04Case struct {
	T       *tgen.TD `json:"type"`
	GoType  string   `json:"go_type,omitempty"`
	JSON    string   `json:"json"`
	Feature string   `json:"feature,omitempty"` // known-finding feature switched on for this case
}

func tdHas(td *tgen.TD, pred func(*tgen.TD) bool) bool {
	found := false
	td.Walk(func(x *tgen.TD) {
		if pred(x) {
			found = true
		}
	})
	return found
}

func hasBigInt(td *tgen.TD) bool {
	return tdHas(td, func(x *tgen.TD) bool { return x.K == "pool" && x.Pool == "big.Int" })
}

// dupJSONNames: some struct level has two fields with the same JSON name.
func hasDupJSONNames(td *tgen.TD) bool {
	return tdHas(td, func(x *tgen.TD) bool {
		if x.K != "struct" {
			return false
		}
		seen := map[string]bool{}
		for _, f := range x.Fields {
			if f.Embedded {
				continue
			}
			n := tgen.JSONName(f)
			if n == "" {
				continue
			}
			if seen[n] {
				return true
			}
			seen[n] = true
		}
		return false
	})
}

// dupWithEmbedded: a field's JSON name collides with a promoted field of an embedded struct at
// a different depth in a way that depends on JSON names rather than Go names. Conservative
// detector used only to keep such shapes out of the clean domain.
func jsonNamesOfType(t reflect.Type) []string {
	var out []string
	if t.Kind() == reflect.Pointer {
		t = t.Elem()
	}
	if t.Kind() != reflect.Struct {
		return nil
	}
	for i := 0; i < t.NumField(); i++ {
		sf := t.Field(i)
		if sf.Anonymous {
			out = append(out, jsonNamesOfType(sf.Type)...)
			continue
		}
		if !sf.IsExported() {
			continue
		}
		name := sf.Name
		if tag, ok := sf.Tag.Lookup("json"); ok {
			if tag == "-" {
				continue
			}
			if n, _, _ := strings.Cut(tag, ","); n != "" {
				name = n
			}
		}
		out = append(out, name)
	}
	return out
}

func checkC04(c *c04Case, rec *ev.Recorder) (fl *failure, harnessErr string) {
	typ, err := tgen.Build(c.T)
	if err != nil {
		return nil, "cannot build type: " + err.Error()
	}
	c.GoType = typ.String()
	fl = guard(func() *failure {
		s, err := jsonschema.ForType(typ, nil)
		wantErr := !tgen.Supported(typ, nil) || tgen.Cyclic(typ, nil)
		if wantErr {
			if err == nil {
				return failf("ForType(%s) succeeds although the type is unsupported or cyclic by the documentation", c.GoType)
			}
			return nil
		}
		if err != nil {
			return failf("ForType(%s) fails on a type built only from documented kinds: %v", c.GoType, err)
		}
		rs, err := s.Resolve(nil)
		if err != nil {
			return failf("Resolve rejects the schema inferred for %s: %v", c.GoType, err)
		}
		if c.JSON == "" {
			return nil
		}
		var inst any
		if err := json.Unmarshal([]byte(c.JSON), &inst); err != nil {
			return failf("HARNESS: encoding/json output does not decode: %v", err)
		}
		if err := rs.Validate(inst); err != nil {
			sb, _ := json.Marshal(s)
			return failf("the schema inferred for %s rejects the encoding/json encoding of one of its values\n json:   %s\n schema: %s\n error: %v", c.GoType, c.JSON, sb, err)
		}
		return nil
	})
	return fl, ""
}

// drawTypeCase draws a type and the known-finding feature (if any) enabled for it.
func drawTypeCase(t *rapid.T, o tgen.Opts) (*tgen.TD, string) {
	feature := ""
	switch rapid.IntRange(0, 19).Draw(t, "feature") {
	case 0:
		feature = "bigint"
		o.BigInt = true
	case 1:
		feature = "nameconflict"
		o.NameConflicts = true
	}
	return tgen.GenTD(t, o), feature
}

func TestC04(t *testing.T) {
	rec := ev.For("C04")
	defer finish(rec)
	rec.Describe("case = (Go type built by reflect.StructOf/SliceOf/ArrayOf/MapOf/PointerTo over all basic kinds and a pool of ~35 declared named types: named scalars/slices/maps, structs with embedded structs by value / pointer / unexported, shadowed and promoted fields, std marshaler types; json tags from a grammar (name incl. names encoding/json rejects, \"-\", \"-,\", omitempty, omitzero, unknown options); value filled by reflection: zero values, nil pointers/slices, empty and long containers, min/max of every sized integer, extreme floats, invalid UTF-8, interfaces holding JSON values). JSON = json.Marshal(&v). Oracle: Resolve(ForType(T)) validates the decoded JSON; ForType errs only for documented unsupported/cyclic types (own predicate). Non-trivial: T has nesting depth >=2 or >=2 struct fields, and the value is not the zero value. Distinct = distinct (type, JSON).",
		"outside the domain by the property's text: nil maps, []byte (any slice of uint8 kind), the ',string' option, user marshalers, pointer-receiver marshalers in non-addressable positions, nil embedded pointers",
		"additionally excluded: non-empty interface types, embedded non-struct types",
		"known-finding features (big.Int, duplicate JSON names at one level) are switched on in 10% of the cases only and counted")
	rapid.Check(t, func(t *rapid.T) {
		c := &c04Case{}
		c.T, c.Feature = drawTypeCase(t, tgen.Opts{MaxDepth: rapid.IntRange(1, 3).Draw(t, "depth"), Std: true, Methods: true, Recursive: rapid.IntRange(0, 9).Draw(t, "rec") == 0, Unsupported: rapid.IntRange(0, 9).Draw(t, "unsup") == 0})
		typ, err := tgen.Build(c.T)
		if err != nil {
			// reflect.StructOf refuses some shapes (e.g. duplicate promoted names): not a case
			rec.Class("discard:reflect-cannot-build")
			t.Skip("unbuildable")
		}
		supported := tgen.Supported(typ, nil) && !tgen.Cyclic(typ, nil)
		if supported && tgen.PtrRecvByValueNonAddressable(c.T) {
			// outside the domain by the property's text (the generator avoids it by construction;
			// this is the backstop, counted)
			rec.Class("discard:ptr-receiver-marshaler-not-addressable")
			t.Skip("out of domain")
		}
		zero := true
		if supported {
			v := tgen.Value(t, typ, tgen.VOpts{})
			p := reflect.New(typ)
			p.Elem().Set(v)
			b, err := json.Marshal(p.Interface())
			if err != nil {
				rec.Class("discard:json.Marshal-error")
				c.JSON = ""
			} else {
				c.JSON = string(b)
			}
			zero = v.IsZero()
		}
		fl, herr := checkC04(c, rec)
		if herr != "" || isHarnessFailure(fl) {
			rec.Inconclusive("harness: " + herr)
			rec.Flush()
			t.Fatalf("harness: %s %v", herr, fl)
		}
		nFields := 0
		c.T.Walk(func(x *tgen.TD) { nFields += len(x.Fields) })
		nt := supported && !zero && (c.T.Depth() >= 2 || nFields >= 2)
		rec.ClassIf(!supported, "type:unsupported-or-cyclic")
		rec.ClassIf(supported, "type:supported")
		rec.ClassIf(strings.Contains(c.JSON, "null"), "value:has-null")
		rec.ClassIf(tdHas(c.T, func(x *tgen.TD) bool {
			for _, f := range x.Fields {
				if f.Embedded {
					return true
				}
			}
			return false
		}), "type:embedded-struct")
		rec.ClassIf(tdHas(c.T, func(x *tgen.TD) bool { return x.K == "pool" && strings.Contains(x.Pool, ".") }), "type:std-marshaler")
		rec.ClassIf(c.Feature != "", "feature:"+c.Feature)
		rec.Eval(nt, []byte(c.GoType+"\x00"+c.JSON), func() any { return map[string]any{"type": c.GoType, "json": json.RawMessage(orNull(c.JSON))} })
		if fl != nil {
			if k := c04Known(c); k != "" {
				rec.Known(k, knownWhat[k])
				rec.Case()
				return
			}
			report(t, rec, c, fl)
		}
		rec.Case()
	})
}

func orNull(s string) string {
	if s == "" {
		return "null"
	}
	return s
}

var knownWhat = map[string]string{
	"bigint-inferred-as-string":      "math/big.Int marshals as a JSON number but its inferred schema is type string (pinned by TestFor)",
	"struct-fields-by-go-visibility": "For enumerates struct fields by Go promotion rules (reflect.VisibleFields), encoding/json by JSON-name dominance: two fields with one JSON name at one level are dropped by encoding/json but required by the schema; a field hidden by Go name but with a different JSON name is emitted by encoding/json but absent from the schema",
}

// c04Known attributes a failing case to an open known finding: the feature was switched on
// for this case AND its class predicate holds on the (shrunk) failing type.
func c04Known(c *c04Case) string {
	switch {
	case c.Feature == "bigint" && hasBigInt(c.T) && knownOpen("bigint-inferred-as-string"):
		return "bigint-inferred-as-string"
	case c.Feature == "nameconflict" && knownOpen("struct-fields-by-go-visibility"):
		if typ, err := tgen.Build(c.T); err == nil && tgen.AnyNameConflict(typ) {
			return "struct-fields-by-go-visibility"
		}
	}
	return ""
}

func init() {
	replayers["C04"] = func(raw json.RawMessage) *failure {
		var c c04Case
		if err := json.Unmarshal(raw, &c); err != nil {
			return failf("REPLAY-HARNESS-ERROR: %v", err)
		}
		fl, herr := checkC04(&c, nil)
		if herr != "" {
			return failf("REPLAY-HARNESS-ERROR: %s", herr)
		}
		return fl
	}
}
