package props

// C15 — ApplyDefaults only adds declared defaults; ValidateDefaults checks them.
//
// Laws checked without re-implementing the algorithm: idempotence; before ⊑ after; no added
// key is required; every added key is a declared property whose value is justified (the
// declared default completed recursively, or a non-empty container of justified keys);
// documented completeness (a missing, non-required property with a declared default is
// present afterwards). ValidateDefaults: Resolve errs <=> the reference evaluator rejects some
// default against its declaring subschema.

import (
	"encoding/json"
	"fmt"
	"reflect"
	"strings"
	"testing"

	"github.com/google/jsonschema-go/jsonschema"
	"pgregory.net/rapid"

	"verif/ev"
	"verif/jv"
	"verif/refmodel"
	"verif/repr"
)

type c15Case struct {
	Schema    *jv.V   `json:"schema"`
	Instances []*jv.V `json:"instances"`
	Typed     bool    `json:"typed"` // also apply to a map[string]map[string]any copy where it fits
	// Pad: every Default of the Schema gets leading and trailing JSON whitespace after Unmarshal,
	// as a schema built in Go may have it (the decoder strips it from documents).
	Pad bool `json:"pad,omitempty"`
	// Reprs: a typed Go representation of each instance to which ApplyDefaults is applied as well.
	Reprs []c15Repr `json:"reprs,omitempty"`
}

type c15Repr struct {
	Fixed   int   `json:"fixed,omitempty"` // 1-based index into c15FixedTypes, 0 = free choice
	Choices []int `json:"choices,omitempty"`
}

type c15NK string

// c15FixedTypes: typed containers whose element types cannot hold every container ApplyDefaults
// might want to create (a map of ints has no room for a nested object).
var c15FixedTypes = []reflect.Type{
	reflect.TypeFor[map[string]map[string]int](),
	reflect.TypeFor[map[string]map[string]any](),
	reflect.TypeFor[map[string]map[string]string](),
	reflect.TypeFor[map[c15NK]map[string]*int](),
	reflect.TypeFor[map[string]map[string]map[string]int](),
	reflect.TypeFor[map[string]map[c15NK]map[string]any](),
	reflect.TypeFor[map[string]map[string]float64](),
	reflect.TypeFor[map[string]int](),
	reflect.TypeFor[map[string]*map[string]any](),
}

// c15Loose: the typed pass checks every law except "the inserted value equals the default",
// since a typed container holds the default as decoded into its element type.
var c15Loose bool

var c15Names = []string{"a", "b", "c"}

// genC15Schema draws a schema tree with defaults; when some leaf refers to "#/definitions/t<k>" the
// root gets those definitions.
func genC15Schema(t *rapid.T, depth int) *jv.V {
	s := genC15Tree(t, depth)
	if strings.Contains(s.JSON(), `"$ref"`) {
		s.Set("definitions", jv.ObjV(
			jv.Member{K: "t0", V: jv.ObjV(jv.Member{K: "type", V: jv.StrV("integer")})},
			jv.Member{K: "t1", V: jv.ObjV(jv.Member{K: "type", V: jv.StrV("string")})},
			jv.Member{K: "t2", V: jv.ObjV(jv.Member{K: "minimum", V: jv.NumV("1")})}))
	}
	return s
}

func genC15Tree(t *rapid.T, depth int) *jv.V {
	s := jv.ObjV()
	n := func(k int, l string) int { return rapid.IntRange(0, k-1).Draw(t, l) }
	val := func() *jv.V { return jv.Gen(jv.Opts{MaxDepth: 2, MaxLen: 2, Keys: c15Names}).Draw(t, "dv") }
	if depth > 0 && n(4, "leaf") > 0 {
		if n(3, "typeobj") == 0 {
			s.Set("type", jv.StrV("object"))
		}
		props := jv.ObjV()
		for _, nm := range c15Names {
			// (deep trees are kept narrow)
			if (depth <= 3 && n(3, "hasprop") > 0) || (depth > 3 && n(3, "hasprop-deep") == 0) {
				props.Set(nm, genC15Tree(t, depth-1))
			}
		}
		s.Set("properties", props)
		if n(2, "hasreq") == 0 {
			req := &jv.V{K: jv.Arr, A: []*jv.V{}}
			for _, nm := range c15Names {
				if n(3, "inreq") == 0 {
					req.A = append(req.A, jv.StrV(nm))
				}
			}
			s.Set("required", req)
		}
		if n(3, "objdefault") == 0 {
			// a default for an object-typed subschema: an object over the same names (possibly
			// incomplete, so that it gets completed), or something else entirely
			if k := n(6, "nonobjdefault"); k == 0 {
				s.Set("default", jv.NullV())
			} else if k == 1 {
				s.Set("default", val())
			} else {
				d := jv.ObjV()
				for _, nm := range c15Names {
					if n(3, "indef") == 0 {
						d.Set(nm, val())
					}
				}
				s.Set("default", d)
			}
		}
		if n(6, "addprops") == 0 {
			s.Set("additionalProperties", jv.BoolV(false))
		}
		return s
	}
	// leaf
	switch n(7, "leafkind") {
	case 6:
		// a reference to one of the root's definitions (added by the caller when any leaf asks for
		// them): the default beside it has to validate against the referenced schema
		s.Set("$ref", jv.StrV("#/definitions/t"+fmt.Sprint(n(3, "reftarget"))))
	case 0:
		s.Set("type", jv.StrV("integer"))
	case 1:
		s.Set("type", jv.StrV("string"))
	case 2:
		s.Set("minimum", jv.NumV("1"))
	case 3:
		s.Set("enum", jv.ArrV(jv.NumV("1"), jv.StrV("a"), jv.NullV()))
	}
	if n(8, "elsewheredefault") == 0 {
		// a default that no chain of `properties` leads to: under items, allOf, additionalProperties
		// or a lone `if` (ValidateDefaults covers the whole tree; ApplyDefaults never gets there)
		holder := jv.ObjV(jv.Member{K: "type", V: jv.StrV("integer")}, jv.Member{K: "default", V: []*jv.V{jv.NumV("1"), jv.StrV("not-an-integer"), jv.NumV("2.5"), jv.NullV()}[n(4, "elsewhereval")]})
		switch n(4, "elsewherekw") {
		case 0:
			s.Set("items", holder)
		case 1:
			s.Set("allOf", jv.ArrV(jv.ObjV(), holder))
		case 2:
			s.Set("additionalProperties", holder)
		default:
			s.Set("if", holder) // without then/else: no effect on validity
		}
	}
	if n(3, "hasdefault") > 0 {
		switch n(8, "defkind") {
		case 0:
			s.Set("default", jv.NullV())
		case 1:
			s.Set("default", jv.NumV("1"))
		case 2:
			s.Set("default", jv.StrV("a"))
		case 3:
			s.Set("default", jv.NumV("0"))
		default:
			s.Set("default", val())
		}
	}
	return s
}

func genC15Instance(t *rapid.T, schema *jv.V, depth int) *jv.V {
	n := func(k int, l string) int { return rapid.IntRange(0, k-1).Draw(t, l) }
	if n(6, "nonobject") == 0 || depth < 0 {
		return jv.Gen(jv.Opts{MaxDepth: 1, MaxLen: 2, Keys: c15Names}).Draw(t, "iv")
	}
	o := jv.ObjV()
	var props *jv.V
	if schema != nil && schema.K == jv.Obj {
		props = schema.Get("properties")
	}
	for _, nm := range c15Names {
		if n(2, "present") == 0 {
			var ps *jv.V
			if props != nil {
				ps = props.Get(nm)
			}
			if ps != nil && ps.Has("properties") {
				o.Set(nm, genC15Instance(t, ps, depth-1))
			} else {
				o.Set(nm, jv.Gen(jv.Opts{MaxDepth: 1, MaxLen: 2, Keys: c15Names}).Draw(t, "pv"))
			}
		}
	}
	if n(5, "extra") == 0 {
		o.Set("zz", jv.NumV("5"))
	}
	return o
}

func isRequired(schema *jv.V, name string) bool {
	if r := schema.Get("required"); r != nil && r.K == jv.Arr {
		for _, e := range r.A {
			if e.K == jv.Str && e.S == name {
				return true
			}
		}
	}
	return false
}

// extends checks before ⊑ after under schema, and that every added key is legitimate.
func extends(before, after, schema *jv.V, path string) *failure {
	if before.K != jv.Obj {
		if !jv.Equal(before, after) {
			return failf("%s: a non-object value was changed from %s to %s", path, before.JSON(), after.JSON())
		}
		return nil
	}
	if after.K != jv.Obj {
		return failf("%s: an object became %s", path, after.JSON())
	}
	var props *jv.V
	if schema != nil && schema.K == jv.Obj {
		props = schema.Get("properties")
	}
	for _, m := range before.O {
		av := after.Get(m.K)
		if av == nil {
			return failf("%s: key %q was removed", path, m.K)
		}
		var ps *jv.V
		if props != nil && props.K == jv.Obj {
			ps = props.Get(m.K)
		}
		if ps == nil {
			if !jv.Equal(m.V, av) {
				return failf("%s/%s: a value not governed by any property subschema was changed from %s to %s", path, m.K, m.V.JSON(), av.JSON())
			}
			continue
		}
		if fl := extends(m.V, av, ps, path+"/"+m.K); fl != nil {
			return fl
		}
	}
	for _, m := range after.O {
		if before.Has(m.K) {
			continue
		}
		// an added key
		var ps *jv.V
		if props != nil && props.K == jv.Obj {
			ps = props.Get(m.K)
		}
		if ps == nil {
			return failf("%s: key %q was added but is not a declared property", path, m.K)
		}
		if isRequired(schema, m.K) {
			return failf("%s: required property %q was filled in", path, m.K)
		}
		if fl := justified(m.V, ps, path+"/"+m.K); fl != nil {
			return fl
		}
	}
	return nil
}

// justified: value v inserted for a property governed by ps is the declared default
// (recursively completed) or a non-empty container of justified keys.
func justified(v, ps *jv.V, path string) *failure {
	if ps == nil || ps.K != jv.Obj {
		return failf("%s: inserted value %s has no declaring subschema", path, v.JSON())
	}
	if d := ps.Get("default"); d != nil {
		if c15Loose {
			return nil
		}
		// v must extend the default, with every extra key justified
		return extends(d, v, ps, path)
	}
	if v.K != jv.Obj {
		return failf("%s: inserted value %s but the subschema declares no default", path, v.JSON())
	}
	if len(v.O) == 0 {
		return failf("%s: an empty container {} was inserted although no default applies inside it", path)
	}
	return extends(jv.ObjV(), v, ps, path)
}

// holdsDefaults: some default is declared below schema, reachable through non-required properties
// only — i.e. applying the defaults to an empty object at this place leaves it non-empty.
func holdsDefaults(schema *jv.V) bool {
	if schema == nil || schema.K != jv.Obj {
		return false
	}
	props := schema.Get("properties")
	if props == nil || props.K != jv.Obj {
		return false
	}
	for _, m := range props.O {
		if m.V.K != jv.Obj || isRequired(schema, m.K) {
			continue
		}
		if m.V.Has("default") || holdsDefaults(m.V) {
			return true
		}
	}
	return false
}

// complete: every missing, non-required property with a declared default is present.
func complete(after, schema *jv.V, path string) *failure {
	if after.K != jv.Obj || schema == nil || schema.K != jv.Obj {
		return nil
	}
	props := schema.Get("properties")
	if props == nil || props.K != jv.Obj {
		return nil
	}
	for _, m := range props.O {
		if m.V.K != jv.Obj {
			continue
		}
		av := after.Get(m.K)
		if av == nil {
			if m.V.Has("default") && !isRequired(schema, m.K) {
				return failf("%s: property %q has a declared default, is not required and is missing, but was not filled in", path, m.K)
			}
			if !isRequired(schema, m.K) && holdsDefaults(m.V) {
				return failf("%s: property %q is missing and not required, and a default is declared below it (through non-required properties only), but no container holding that default was created (nested defaults are applied recursively)", path, m.K)
			}
			continue
		}
		if isRequired(schema, m.K) {
			continue // the documentation does not promise descent below required properties
		}
		if fl := complete(av, m.V, path+"/"+m.K); fl != nil {
			return fl
		}
	}
	return nil
}

func checkC15(c *c15Case, rec *ev.Recorder) *failure {
	doc := c.Schema.JSON()
	return guard(func() *failure {
		var s jsonschema.Schema
		if err := json.Unmarshal([]byte(doc), &s); err != nil {
			return failf("Unmarshal rejects a well-formed schema: %v\n%s", err, doc)
		}
		if c.Pad {
			for _, x := range schemaList(&s) {
				if x.Default != nil {
					x.Default = json.RawMessage(" \n\t" + string(x.Default) + " \n")
				}
			}
		}
		rs, err := s.Resolve(nil)
		if err != nil {
			return failf("Resolve rejects a well-formed schema: %v\n%s", err, doc)
		}
		// ValidateDefaults
		draft := refmodel.D2020
		if sv := c.Schema.Get("$schema"); sv != nil && sv.K == jv.Str && sv.S == refmodel.URI7 {
			draft = refmodel.D7
		}
		m, merr := refmodel.New(&refmodel.Universe{Root: c.Schema}, draft)
		if merr != nil {
			return failf("HARNESS: model: %v", merr)
		}
		bad, anyBad := "", false
		for _, n := range m.AllNodes() {
			if n.V.K == jv.Obj && n.V.Has("default") {
				r, err := m.Eval(n, n.V.Get("default"), nil)
				if err != nil {
					return failf("HARNESS: model: %v", err)
				}
				if !r.Valid && !anyBad {
					bad, anyBad = n.Ptr+" (default "+n.V.Get("default").JSON()+")", true
				}
			}
		}
		var s2 jsonschema.Schema
		_ = json.Unmarshal([]byte(doc), &s2)
		_, verr := s2.Resolve(&jsonschema.ResolveOptions{ValidateDefaults: true})
		if rec != nil {
			rec.ClassIf(!anyBad, "validate-defaults:all-valid")
			rec.ClassIf(anyBad, "validate-defaults:some-invalid")
		}
		if (verr != nil) != anyBad {
			return failf("Resolve(ValidateDefaults) error=%v, but the reference evaluator finds an invalid default=%v (first at %q)\n schema: %s", verr, anyBad, bad, doc)
		}
		for i, inst := range c.Instances {
			var x any = inst.ToAny()
			if err := rs.ApplyDefaults(&x); err != nil {
				// an error is allowed (e.g. a default that cannot be assigned); nothing may have been corrupted silently,
				// but the documentation makes no promise about partial application
				if rec != nil {
					rec.Class("apply:error")
					rec.Eval(false, []byte(doc+"\x00"+inst.Canon()), nil)
				}
				continue
			}
			after := jv.FromAny(x)
			added := after.Size() - inst.Size()
			if rec != nil {
				deep := false
				for _, m := range after.O {
					if b := inst.Get(m.K); b != nil && b.K == jv.Obj && m.V.Size() > b.Size() {
						deep = true
					}
					if inst.Get(m.K) == nil && m.V.K == jv.Obj && len(m.V.O) > 0 {
						deep = true
					}
				}
				rec.ClassIf(added > 0, "apply:something-added")
				rec.ClassIf(added == 0, "apply:nothing-added")
				rec.ClassIf(deep, "apply:added-below-depth-1")
				rec.Eval(added > 0, []byte(doc+"\x00"+inst.Canon()), func() any {
					return map[string]any{"schema": c.Schema, "before": inst, "after": after}
				})
			}
			if fl := extends(inst, after, c.Schema, ""); fl != nil {
				return failf("%s\n schema: %s\n before: %s\n after:  %s", fl.Msg, doc, inst.JSON(), after.JSON())
			}
			if fl := complete(after, c.Schema, ""); fl != nil {
				return failf("%s\n schema: %s\n before: %s\n after:  %s", fl.Msg, doc, inst.JSON(), after.JSON())
			}
			// isolation between instances: whatever was inserted into this instance is the caller's
			// now; scribbling over it must not change what a later application inserts elsewhere
			poison(x)
			var fresh any = inst.ToAny()
			if err := rs.ApplyDefaults(&fresh); err != nil {
				return failf("ApplyDefaults fails on a second, identical instance: %v", err)
			}
			if got := jv.FromAny(fresh); !jv.Equal(got, after) {
				return failf("ApplyDefaults on a fresh copy of the same instance gives a different result after the first result was modified by its owner (inserted values are shared between instances)\n schema: %s\n instance: %s\n first:  %s\n second: %s", doc, inst.JSON(), after.JSON(), got.JSON())
			}
			// idempotence
			var y any = after.ToAny()
			if err := rs.ApplyDefaults(&y); err != nil {
				return failf("second ApplyDefaults fails: %v\n schema: %s\n instance: %s", err, doc, after.JSON())
			}
			if !jv.Equal(jv.FromAny(y), after) {
				return failf("ApplyDefaults is not idempotent\n schema: %s\n once:  %s\n twice: %s", doc, after.JSON(), jv.FromAny(y).JSON())
			}
			if i < len(c.Reprs) {
				if fl := c15TypedPass(rs, c, i, rec); fl != nil {
					return fl
				}
			}
			if c.Typed {
				// the same through a map with a named string key type
				if mm, ok := inst.ToAny().(map[string]any); ok {
					type K string
					tm := map[K]any{}
					for k, v := range mm {
						tm[K(k)] = v
					}
					if err := rs.ApplyDefaults(&tm); err == nil {
						back := map[string]any{}
						for k, v := range tm {
							back[string(k)] = v
						}
						if !jv.Equal(jv.FromAny(back), after) {
							return failf("ApplyDefaults gives a different result on map[K]any (named string key) than on map[string]any\n schema: %s\n instance: %s\n map[string]any: %s\n map[K]any: %s", doc, inst.JSON(), after.JSON(), jv.FromAny(back).JSON())
						}
					}
				}
			}
		}
		return nil
	})
}

// c15TypedPass applies the defaults to a typed Go representation of instance i and checks the
// representation-independent laws on the result as encoding/json writes it.
func c15TypedPass(rs *jsonschema.Resolved, c *c15Case, i int, rec *ev.Recorder) *failure {
	inst, r := c.Instances[i], c.Reprs[i]
	b := &repr.Builder{C: &repr.Script{Seq: r.Choices}, O: repr.Options{NoArrays: true}}
	var x any
	fixed := false
	if r.Fixed > 0 && r.Fixed <= len(c15FixedTypes) {
		x, fixed = b.BuildAs(inst, c15FixedTypes[r.Fixed-1])
	}
	if !fixed {
		x = b.Build(inst)
	}
	desc := repr.Describe(x)
	doc := c.Schema.JSON()
	var err error
	if f := guard(func() *failure { err = rs.ApplyDefaults(&x); return nil }); f != nil {
		return failf("ApplyDefaults panics on the representation %s of %s\n schema: %s\n%s", desc, inst.JSON(), doc, f.Msg)
	}
	if err != nil {
		// e.g. a default that does not fit the element type
		if rec != nil {
			rec.Class("typed:error")
		}
		return nil
	}
	enc := func() (*jv.V, *failure) {
		bs, err := json.Marshal(x)
		if err != nil {
			return nil, failf("HARNESS: cannot encode the typed result: %v", err)
		}
		v, err := jv.Parse(string(bs))
		if err != nil {
			return nil, failf("HARNESS: cannot parse the typed result: %v", err)
		}
		// through float64: encoding/json spells a float64 in its shortest round-tripping form
		// (-2^63 as -9223372036854776000)
		return jv.FromAny(v.ToAny()), nil
	}
	after, fl := enc()
	if fl != nil {
		return fl
	}
	if rec != nil {
		rec.ClassIf(fixed, "typed:fixed-container-type")
		rec.ClassIf(!fixed, "typed:free-representation")
		rec.ClassIf(after.Size() > inst.Size(), "typed:something-added")
		rec.Eval(after.Size() > inst.Size(), []byte(doc+"\x00"+inst.Canon()+"\x00"+desc), func() any {
			return map[string]any{"schema": c.Schema, "before": inst, "representation": desc, "after": after}
		})
	}
	c15Loose = true
	fl = extends(jv.FromAny(inst.ToAny()), after, c.Schema, "")
	c15Loose = false
	if fl != nil {
		return failf("on the representation %s: %s\n schema: %s\n before: %s\n after:  %s", desc, fl.Msg, doc, inst.JSON(), after.JSON())
	}
	if err := rs.ApplyDefaults(&x); err != nil {
		return failf("second ApplyDefaults fails on the representation %s: %v\n schema: %s\n instance: %s", desc, err, doc, after.JSON())
	}
	twice, fl := enc()
	if fl != nil {
		return fl
	}
	if !jv.Equal(twice, after) {
		return failf("ApplyDefaults is not idempotent on the representation %s\n schema: %s\n once:  %s\n twice: %s", desc, doc, after.JSON(), twice.JSON())
	}
	return nil
}

// poison writes a marker key into every map reachable from x (the harness acting as the owner
// of an instance after ApplyDefaults returned).
func poison(x any) {
	switch t := x.(type) {
	case map[string]any:
		for _, v := range t {
			poison(v)
		}
		t["__scribbled-by-owner"] = true
	case []any:
		for _, v := range t {
			poison(v)
		}
	}
}

func TestC15(t *testing.T) {
	rec := ev.For("C15")
	defer finish(rec)
	if n, mm, err := runModelOnSuite(); err != nil || len(mm) > 0 || n < 1500 {
		rec.Inconclusive("model-invalid: reference model does not reproduce the official suite")
		t.Fatalf("reference model invalid: %v %v", err, mm)
	}
	rec.Describe("case = (schema with `default` at any depth (<=3) of `properties` over names {a,b,c}: with/without required, defaults of every JSON type incl. null and incomplete objects that get completed, defaults on object and non-object subschemas, asserting leaves so that ValidateDefaults has both outcomes; 4 instances: objects with any subset of the properties, non-objects at any position, extra keys). Oracles: algebraic laws (idempotence, before ⊑ after, no required key filled, every added key declared and justified by a default or a non-empty container, documented completeness) and ValidateDefaults <=> reference evaluator on every (default, declaring subschema) pair. Non-trivial: ApplyDefaults added something. Distinct = distinct (schema, instance).",
		"schemas contain no $ref/$dynamicRef (ApplyDefaults documents that it does not follow them; ValidateDefaults refuses $dynamicRef)",
		"instances are map[string]any trees as decoded by encoding/json (plus a map with a named string key type)")
	rapid.Check(t, watched("C15", propC15(rec)))
}

// propC15 is the property body, shared by TestC15 (rapid) and FuzzC15 (native fuzzing over
// rapid's bit stream).
func propC15(rec *ev.Recorder) func(t *rapid.T) {
	return func(t *rapid.T) {
		c := &c15Case{Typed: rapid.Bool().Draw(t, "typed")}
		c.Schema = genC15Schema(t, rapid.SampledFrom([]int{1, 2, 3, 3, 4, 5}).Draw(t, "depth"))
		if c.Schema.Has("definitions") {
			if rapid.IntRange(0, 2).Draw(t, "d7") == 0 {
				c.Schema.O = append([]jv.Member{{K: "$schema", V: jv.StrV(refmodel.URI7)}}, c.Schema.O...)
			}
			rec.Class("schema:defaults-beside-$ref")
		}
		c.Pad = rapid.IntRange(0, 3).Draw(t, "pad") == 0
		for i := 0; i < 4; i++ {
			c.Instances = append(c.Instances, genC15Instance(t, c.Schema, 5))
		}
		for _, inst := range c.Instances {
			r := c15Repr{}
			if rapid.IntRange(0, 2).Draw(t, "fixedtype") == 0 {
				r.Fixed = 1 + rapid.IntRange(0, len(c15FixedTypes)-1).Draw(t, "fixedtypeidx")
			}
			l := &repr.Logger{In: repr.RapidChooser{T: t}}
			(&repr.Builder{C: l, O: repr.Options{NoArrays: true}}).Build(inst)
			r.Choices = l.Log
			c.Reprs = append(c.Reprs, r)
		}
		fl := checkC15(c, rec)
		if isHarnessFailure(fl) {
			rec.Inconclusive("generator-or-model-error: " + fl.Msg)
			rec.Flush()
			t.Fatalf("%s", fl.Msg)
		}
		if fl != nil {
			report(t, rec, c, fl)
		}
		rec.Case()
	}
}

func init() {
	replayers["C15"] = func(raw json.RawMessage) *failure {
		var c c15Case
		if err := json.Unmarshal(raw, &c); err != nil {
			return failf("REPLAY-HARNESS-ERROR: %v", err)
		}
		fixNils(c.Instances)
		fl := checkC15(&c, nil)
		if isHarnessFailure(fl) {
			return failf("REPLAY-HARNESS-ERROR: %s", fl.Msg)
		}
		return fl
	}
}
