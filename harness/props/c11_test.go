package props

// C11 — Equal is JSON value equality.
//
// Generator: pairs/triples of JSON values (b = equivalent copy of a | single-point mutation
// of a | independent), each side independently re-typed by repr (mixed representations).
// Oracle: canonical equality of the jv trees (harness-side, independent of the library)
// plus reflexivity, symmetry and transitivity evaluated directly.

import (
	"encoding/json"
	"math/big"
	"reflect"
	"strconv"
	"testing"

	"github.com/google/jsonschema-go/jsonschema"
	"pgregory.net/rapid"

	"verif/ev"
	"verif/jv"
	"verif/repr"
)

type c11Case struct {
	A   *jv.V `json:"a"`
	B   *jv.V `json:"b"`
	C   *jv.V `json:"c"`
	ChA []int `json:"choices_a"`
	ChB []int `json:"choices_b"`
	ChC []int `json:"choices_c"`
	// informational
	ReprA string `json:"repr_a,omitempty"`
	ReprB string `json:"repr_b,omitempty"`
	ReprC string `json:"repr_c,omitempty"`
	How   string `json:"how,omitempty"`
}

// selfCheckRepr verifies (harness self-check) that a built representation marshals to the
// value it is meant to carry.
func selfCheckRepr(x any, v *jv.V) string {
	b, err := json.Marshal(x)
	if err != nil {
		return "json.Marshal of generated representation failed: " + err.Error()
	}
	back, err := jv.Parse(string(b))
	if err != nil {
		return "generated representation marshals to unparsable JSON: " + string(b)
	}
	// encoding/json writes floats in their shortest round-tripping spelling (2^63 as
	// 9223372036854776000), so the comparison is made after rounding both sides to float64.
	if !jv.Equal(back, v) && !reflect.DeepEqual(back.ToAny(), v.ToAny()) {
		return "generated representation marshals to " + string(b) + ", want " + v.JSON()
	}
	return ""
}

// c11Opts: the equality properties are about mathematical values, so a float32 may carry any
// number it holds exactly, whatever encoding/json would print for it.
var c11Opts = repr.Options{LooseFloat32: true}

func hasLooseFloat32(v *jv.V) bool {
	found := false
	v.Walk(func(n *jv.V) {
		if n.K != jv.Num {
			return
		}
		// float32-exact, but the float32's shortest spelling denotes another number
		if f, exact := n.N.Float32(); exact {
			if back, ok := new(big.Rat).SetString(strconv.FormatFloat(float64(f), 'g', -1, 32)); ok && back.Cmp(n.N) != 0 {
				found = true
			}
		}
	})
	return found
}

func checkC11(c *c11Case) (fl *failure, harnessErr string) {
	ra := (&repr.Builder{C: &repr.Script{Seq: c.ChA}, O: c11Opts}).Build(c.A)
	rb := (&repr.Builder{C: &repr.Script{Seq: c.ChB}, O: c11Opts}).Build(c.B)
	rc := (&repr.Builder{C: &repr.Script{Seq: c.ChC}, O: c11Opts}).Build(c.C)
	for _, p := range []struct {
		x any
		v *jv.V
	}{{ra, c.A}, {rb, c.B}, {rc, c.C}} {
		if hasLooseFloat32(p.v) {
			continue // a float32 carrying it is spelled with fewer digits by encoding/json (by design here)
		}
		if msg := selfCheckRepr(p.x, p.v); msg != "" {
			return nil, msg
		}
	}
	c.ReprA, c.ReprB, c.ReprC = repr.Describe(ra), repr.Describe(rb), repr.Describe(rc)
	fl = guard(func() *failure {
		eq := func(x, y any) bool { return jsonschema.Equal(x, y) }
		wantAB, wantBC, wantAC := jv.Equal(c.A, c.B), jv.Equal(c.B, c.C), jv.Equal(c.A, c.C)
		if got := eq(ra, rb); got != wantAB {
			return failf("Equal(a,b)=%v but the JSON values are equal=%v\n a=%s as %s\n b=%s as %s", got, wantAB, c.A.JSON(), c.ReprA, c.B.JSON(), c.ReprB)
		}
		if got := eq(rb, ra); got != wantAB {
			return failf("Equal(b,a)=%v (asymmetric) want %v\n a=%s as %s\n b=%s as %s", got, wantAB, c.A.JSON(), c.ReprA, c.B.JSON(), c.ReprB)
		}
		if got := eq(rb, rc); got != wantBC {
			return failf("Equal(b,c)=%v want %v\n b=%s as %s\n c=%s as %s", got, wantBC, c.B.JSON(), c.ReprB, c.C.JSON(), c.ReprC)
		}
		if got := eq(ra, rc); got != wantAC {
			return failf("Equal(a,c)=%v want %v\n a=%s as %s\n c=%s as %s", got, wantAC, c.A.JSON(), c.ReprA, c.C.JSON(), c.ReprC)
		}
		for _, x := range []any{ra, rb, rc} {
			if !eq(x, x) {
				return failf("Equal(x,x)=false for %s", repr.Describe(x))
			}
		}
		// two slices over one backing array: the same storage is not the same JSON value. A prefix
		// of a non-empty slice is a different (shorter) array, alone and inside a container.
		for _, x := range []any{ra, rb, rc} {
			v := reflect.ValueOf(x)
			for v.IsValid() && (v.Kind() == reflect.Pointer || v.Kind() == reflect.Interface) && !v.IsNil() {
				v = v.Elem()
			}
			if !v.IsValid() || v.Kind() != reflect.Slice || v.Len() == 0 {
				continue
			}
			full, prefix := v.Interface(), v.Slice(0, v.Len()-1).Interface()
			if eq(full, prefix) || eq(prefix, full) {
				return failf("Equal reports a slice and its proper prefix (same backing array, lengths %d and %d) as equal: %s", v.Len(), v.Len()-1, repr.Describe(full))
			}
			if eq([]any{full}, []any{prefix}) || eq(map[string]any{"k": prefix}, map[string]any{"k": full}) {
				return failf("Equal reports containers holding a slice and its proper prefix (same backing array) as equal: %s", repr.Describe(full))
			}
			if !eq(full, v.Slice(0, v.Len()).Interface()) {
				return failf("Equal(x, x[:len(x)]) is false for %s", repr.Describe(full))
			}
		}
		// one operand holding the very same Go container twice ([x, x]) against [x, y]: equal exactly
		// when x and y are, whichever side the shared container is on
		if got := eq([]any{ra, ra}, []any{ra, rb}); got != wantAB {
			return failf("Equal([x,x],[x,y])=%v although x and y are equal=%v (the same container occurs twice in the left operand)\n x=%s as %s\n y=%s as %s", got, wantAB, c.A.JSON(), c.ReprA, c.B.JSON(), c.ReprB)
		}
		if got := eq([]any{ra, rb}, []any{ra, ra}); got != wantAB {
			return failf("Equal([x,y],[x,x])=%v although x and y are equal=%v (the same container occurs twice in the right operand)\n x=%s as %s\n y=%s as %s", got, wantAB, c.A.JSON(), c.ReprA, c.B.JSON(), c.ReprB)
		}
		if got := eq(map[string]any{"p": rb, "q": rb}, map[string]any{"p": rb, "q": rc}); got != wantBC {
			return failf("Equal({p:x,q:x},{p:x,q:y})=%v although x and y are equal=%v\n x=%s as %s\n y=%s as %s", got, wantBC, c.B.JSON(), c.ReprB, c.C.JSON(), c.ReprC)
		}
		// the laws, stated on the library's own answers
		if eq(ra, rb) && eq(rb, rc) && !eq(ra, rc) {
			return failf("Equal is not transitive")
		}
		return nil
	})
	return fl, ""
}

func kindClass(x any) string {
	v := reflect.ValueOf(x)
	for v.IsValid() && (v.Kind() == reflect.Pointer || v.Kind() == reflect.Interface) {
		if v.IsNil() {
			return "nil"
		}
		v = v.Elem()
	}
	if !v.IsValid() {
		return "nil"
	}
	if v.Type().String() == "json.Number" {
		return "json.Number"
	}
	return v.Kind().String()
}

// c11Corners are hand-written corner cases (the shrunk forms of defects the generator found
// on the pinned commit, kept as a plain regression tier that bypasses rapid).
func c11Corners() []struct {
	x, y any
	want bool
} {
	one := 1
	pone := &one
	return []struct {
		x, y any
		want bool
	}{
		{[]any{1}, []int{1}, true},
		{map[string]any{"a": 1}, map[string]int{"a": 1}, true},
		{[]any{"a"}, []string{"a"}, true},
		{[]int{1}, [1]int{1}, true},
		{[]any{&one}, []any{1}, true},
		{&pone, 1.0, true},
		{map[repr.MyStr]any{"a": 1}, map[string]any{"a": 1}, true},
		{map[repr.MyStr]any{"a": 1}, map[string]any{"b": 1}, false},
		{json.Number("1"), "1", false},
		{json.Number("1.0"), uint8(1), true},
		{[]any{nil}, []*int{nil}, true},
		{int64(9007199254740993), float64(9007199254740992), false},
		{uint64(18446744073709551615), json.Number("18446744073709551615"), true},
		{map[string]any{"a": 1}, map[string]any{"a": 1, "b": nil}, false},
		{"\u00e9", "e\u0301", false},
		{[]any{}, map[string]any{}, false},
		{nil, false, false},
		{nil, 0, false},
		{"", nil, false},
	}
}

func TestC11(t *testing.T) {
	rec := ev.For("C11")
	defer finish(rec)
	if shard0() {
		for i, c := range c11Corners() {
			fl := guard(func() *failure {
				if got := jsonschema.Equal(c.x, c.y); got != c.want {
					return failf("corner %d: Equal(%#v, %#v) = %v, want %v", i, c.x, c.y, got, c.want)
				}
				if got := jsonschema.Equal(c.y, c.x); got != c.want {
					return failf("corner %d: Equal(%#v, %#v) = %v, want %v", i, c.y, c.x, got, c.want)
				}
				return nil
			})
			if fl != nil {
				rec.Fail(map[string]any{"corner": i, "x": repr.Describe(c.x), "y": repr.Describe(c.y), "want": c.want}, fl.Msg)
				rec.Flush()
				t.Fatalf("%s", fl.Msg)
			}
		}
		rec.SetExtra("corner_cases", len(c11Corners()))
	}
	rec.Describe("case = triple (a,b,c) of JSON values over the shared pools (incl. integers beyond 2^53, last-bit neighbours, NFC/NFD strings, nested containers): b is an equivalent respelled/permuted copy of a, a single-point mutation of a, or independent; c likewise from b; each side independently re-typed (numeric kind per leaf, []any/[]T/[N]T/named slices, map[string]any/map[K]T with named key types, 0-2 pointers, interfaces, json.Number). Oracle: harness-side canonical equality + reflexive/symmetric/transitive laws. Non-trivial: the two sides differ in Go representation at some node, or differ in exactly one leaf. Distinct = distinct (values, representations).",
		"numbers are compared as exact rationals on the harness side",
		"nil slices, nil maps and structs are never generated (outside the property's domain)")
	o := jv.Opts{MaxDepth: 3, MaxLen: 4, Wide: true}
	rapid.Check(t, func(t *rapid.T) {
		c := &c11Case{}
		c.A = jv.Gen(o).Draw(t, "a")
		derive := func(src *jv.V, label string) (*jv.V, string) {
			switch rapid.IntRange(0, 4).Draw(t, label+"-how") {
			case 0, 1:
				return jv.EquivalentCopy(t, src), "equiv"
			case 2, 3:
				return jv.Mutate(t, src, o), "mutate"
			default:
				return jv.Gen(o).Draw(t, label), "independent"
			}
		}
		var h1, h2 string
		c.B, h1 = derive(c.A, "b")
		c.C, h2 = derive(c.B, "c")
		c.How = h1 + "/" + h2
		var used map[string]int
		mk := func(v *jv.V) []int {
			l := &repr.Logger{In: repr.RapidChooser{T: t}}
			bd := &repr.Builder{C: l, O: c11Opts}
			bd.Build(v)
			if used == nil {
				used = map[string]int{}
			}
			for k, n := range bd.Used {
				used[k] += n
			}
			return l.Log
		}
		c.ChA, c.ChB, c.ChC = mk(c.A), mk(c.B), mk(c.C)
		fl, herr := checkC11(c)
		if herr != "" {
			rec.Inconclusive("generator-self-check: " + herr)
			rec.Flush()
			t.Fatalf("harness self-check: %s", herr)
		}
		nt := c.ReprA != c.ReprB || h1 == "mutate"
		rec.Class("how:" + c.How)
		rec.ClassIf(jv.Equal(c.A, c.B), "a==b")
		rec.ClassIf(!jv.Equal(c.A, c.B), "a!=b")
		for k := range used {
			rec.Class("repr:" + k)
		}
		ra := (&repr.Builder{C: &repr.Script{Seq: c.ChA}, O: c11Opts}).Build(c.A)
		rb := (&repr.Builder{C: &repr.Script{Seq: c.ChB}, O: c11Opts}).Build(c.B)
		rec.Class("toplevel-pair:" + kindClass(ra) + "x" + kindClass(rb))
		rec.Eval(nt, ev.JSON(c), func() any { return c })
		if fl != nil {
			report(t, rec, c, fl)
		}
		rec.Case()
	})
}

func init() {
	replayers["C11"] = func(raw json.RawMessage) *failure {
		var c c11Case
		if err := json.Unmarshal(raw, &c); err != nil {
			return failf("REPLAY-HARNESS-ERROR: %v", err)
		}
		fixNil(&c.A)
		fixNil(&c.B)
		fixNil(&c.C)
		fl, herr := checkC11(&c)
		if herr != "" {
			return failf("REPLAY-HARNESS-ERROR: %s", herr)
		}
		return fl
	}
}
