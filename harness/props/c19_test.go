package props

// C19 — Marshal output is deterministic and honours PropertyOrder.
//
// Generator: Schema trees whose nodes carry 0..8 properties (hostile names) and a
// PropertyOrder list (permutation / subset / superset / absent names / duplicates / nil),
// nested through properties, items, allOf and $defs. Plus, in every run, the exhaustive
// sub-space: all order lists of length <= 4 over {A,B,C,Z} x all subsets of {A,B,C}.
// Oracle: model key sequence = [n in order | n in props] ++ sort(props \ order), read from the
// output with a json.Decoder token walk; duplicates anywhere => error; 10 marshals identical.

import (
	"bytes"
	"encoding/json"
	"fmt"
	"sort"
	"strings"
	"testing"

	"github.com/google/jsonschema-go/jsonschema"
	"pgregory.net/rapid"

	"verif/ev"
)

type c19Prop struct {
	Name  string   `json:"name"`
	Leaf  string   `json:"leaf,omitempty"` // type of a leaf schema ("" = empty schema)
	Child *c19Node `json:"child,omitempty"`
}

type c19Node struct {
	HasProps bool       `json:"has_props"` // false: Properties is nil
	Props    []c19Prop  `json:"props"`
	HasOrder bool       `json:"has_order"` // false: PropertyOrder is nil
	Order    []string   `json:"order"`
	Items    *c19Node   `json:"items,omitempty"`
	AllOf    []*c19Node `json:"allOf,omitempty"`
	Defs     []c19Prop  `json:"defs,omitempty"`
	Title    string     `json:"title,omitempty"`
	// SharedOrders (root only): all PropertyOrder slices of the tree are carved out of one backing
	// array, each with the others' entries in its spare capacity — what slicing one list for several
	// schemas (full[:2], full[2:]) leaves behind.
	SharedOrders bool `json:"shared_orders,omitempty"`
	// OrderLike: an unknown keyword with an order-like name holding a list of this node's property
	// names (in Extra): it says nothing about how "properties" is written.
	// Required: a subset of the property names (it has no say in the order of "properties")
	Required      []string `json:"required,omitempty"`
	OrderLike     string   `json:"order_like,omitempty"`
	OrderLikeList []string `json:"order_like_list,omitempty"`
}

var c19Arena *[]string

func (n *c19Node) totalOrder() int {
	t := len(n.Order)
	for _, p := range n.Props {
		if p.Child != nil {
			t += p.Child.totalOrder()
		}
	}
	if n.Items != nil {
		t += n.Items.totalOrder()
	}
	for _, a := range n.AllOf {
		t += a.totalOrder()
	}
	for _, p := range n.Defs {
		if p.Child != nil {
			t += p.Child.totalOrder()
		}
	}
	return t
}

// buildTree builds the Schema tree of a case.
func (n *c19Node) buildTree() *jsonschema.Schema {
	if n.SharedOrders {
		a := make([]string, 0, n.totalOrder()+4)
		c19Arena = &a
		defer func() { c19Arena = nil }()
	}
	return n.build()
}

var c19Names = []string{"A", "B", "C", "a", "b", "Z", "\u00e9", "e\u0301", "<", "&", "", " ", "a b", "\"", "\\", "\u2028", "0", "10", "9", "~", "/", "type", "properties", "\x01", "del\x7f", "\v", "\U0001f600"}

func (n *c19Node) build() *jsonschema.Schema {
	s := &jsonschema.Schema{Title: n.Title}
	if n.HasProps {
		s.Properties = map[string]*jsonschema.Schema{}
		for _, p := range n.Props {
			s.Properties[p.Name] = p.build()
		}
	}
	if n.HasOrder {
		if c19Arena != nil {
			start := len(*c19Arena)
			*c19Arena = append(*c19Arena, n.Order...)
			s.PropertyOrder = (*c19Arena)[start:len(*c19Arena)]
		} else {
			s.PropertyOrder = append([]string{}, n.Order...)
		}
	}
	if len(n.Required) > 0 {
		s.Required = append([]string{}, n.Required...)
	}
	if n.OrderLike != "" {
		l := make([]any, len(n.OrderLikeList))
		for i, x := range n.OrderLikeList {
			l[i] = x
		}
		s.Extra = map[string]any{n.OrderLike: l}
	}
	if n.Items != nil {
		s.Items = n.Items.build()
	}
	for _, a := range n.AllOf {
		s.AllOf = append(s.AllOf, a.build())
	}
	if len(n.Defs) > 0 {
		s.Defs = map[string]*jsonschema.Schema{}
		for _, p := range n.Defs {
			s.Defs[p.Name] = p.build()
		}
	}
	return s
}

func (p c19Prop) build() *jsonschema.Schema {
	if p.Child != nil {
		return p.Child.build()
	}
	return &jsonschema.Schema{Type: p.Leaf}
}

func hasDupStrings(xs []string) bool {
	seen := map[string]bool{}
	for _, x := range xs {
		if seen[x] {
			return true
		}
		seen[x] = true
	}
	return false
}

func (n *c19Node) anyDup() bool {
	if n.HasOrder && hasDupStrings(n.Order) {
		return true
	}
	for _, p := range n.Props {
		if p.Child != nil && p.Child.anyDup() {
			return true
		}
	}
	if n.Items != nil && n.Items.anyDup() {
		return true
	}
	for _, a := range n.AllOf {
		if a.anyDup() {
			return true
		}
	}
	for _, p := range n.Defs {
		if p.Child != nil && p.Child.anyDup() {
			return true
		}
	}
	return false
}

// expectedKeys is the model of the property.
func (n *c19Node) expectedKeys() []string {
	names := map[string]bool{}
	for _, p := range n.Props {
		names[p.Name] = true
	}
	var out []string
	used := map[string]bool{}
	if n.HasOrder {
		for _, o := range n.Order {
			if names[o] && !used[o] {
				out = append(out, o)
				used[o] = true
			}
		}
	}
	var rest []string
	for nm := range names {
		if !used[nm] {
			rest = append(rest, nm)
		}
	}
	sort.Strings(rest)
	return append(out, rest...)
}

// orderedObject decodes one JSON object into its key sequence and raw member values.
func orderedObject(raw json.RawMessage) (keys []string, vals map[string]json.RawMessage, err error) {
	vals = map[string]json.RawMessage{}
	trim := bytes.TrimSpace(raw)
	if len(trim) == 0 || trim[0] != '{' {
		return nil, vals, nil
	}
	dec := json.NewDecoder(bytes.NewReader(trim))
	if _, err := dec.Token(); err != nil {
		return nil, nil, err
	}
	for dec.More() {
		kt, err := dec.Token()
		if err != nil {
			return nil, nil, err
		}
		k := kt.(string)
		var v json.RawMessage
		if err := dec.Decode(&v); err != nil {
			return nil, nil, err
		}
		if _, dup := vals[k]; dup {
			return nil, nil, fmt.Errorf("duplicate key %q in output", k)
		}
		keys = append(keys, k)
		vals[k] = v
	}
	return keys, vals, nil
}

func (n *c19Node) verify(raw json.RawMessage, path string) *failure {
	_, vals, err := orderedObject(raw)
	if err != nil {
		return failf("%s: output not decodable: %v (%s)", path, err, raw)
	}
	pr, has := vals["properties"]
	if n.HasProps != has {
		return failf("%s: properties present=%v, want %v (%s)", path, has, n.HasProps, raw)
	}
	if has {
		keys, pvals, err := orderedObject(pr)
		if err != nil {
			return failf("%s: properties not decodable: %v", path, err)
		}
		want := n.expectedKeys()
		if !equalStrings(keys, want) {
			return failf("%s: properties key order %q, model says %q (order=%q)", path, keys, want, n.Order)
		}
		for _, p := range n.Props {
			if p.Child != nil {
				if fl := p.Child.verify(pvals[p.Name], path+"/properties/"+p.Name); fl != nil {
					return fl
				}
			}
		}
	}
	if n.Items != nil {
		if fl := n.Items.verify(vals["items"], path+"/items"); fl != nil {
			return fl
		}
	}
	if len(n.AllOf) > 0 {
		var arr []json.RawMessage
		if err := json.Unmarshal(vals["allOf"], &arr); err != nil || len(arr) != len(n.AllOf) {
			return failf("%s: allOf not an array of %d: %s", path, len(n.AllOf), vals["allOf"])
		}
		for i, a := range n.AllOf {
			if fl := a.verify(arr[i], fmt.Sprintf("%s/allOf/%d", path, i)); fl != nil {
				return fl
			}
		}
	}
	if len(n.Defs) > 0 {
		_, dvals, err := orderedObject(vals["$defs"])
		if err != nil {
			return failf("%s: $defs not decodable: %v", path, err)
		}
		for _, p := range n.Defs {
			if p.Child != nil {
				if fl := p.Child.verify(dvals[p.Name], path+"/$defs/"+p.Name); fl != nil {
					return fl
				}
			}
		}
	}
	return nil
}

func equalStrings(a, b []string) bool {
	if len(a) != len(b) {
		return false
	}
	for i := range a {
		if a[i] != b[i] {
			return false
		}
	}
	return true
}

func checkC19(n *c19Node) *failure {
	return guard(func() *failure {
		s := n.buildTree()
		first, err := json.Marshal(s)
		if n.anyDup() {
			if err == nil {
				return failf("PropertyOrder with duplicate entries marshals without error: %s", first)
			}
			return nil
		}
		if err != nil {
			return failf("Marshal failed on a schema without duplicate PropertyOrder entries: %v", err)
		}
		for i := 0; i < 10; i++ {
			var again []byte
			var err error
			switch i % 3 {
			case 0:
				again, err = json.Marshal(s)
			case 1:
				again, err = json.Marshal(*s)
			default:
				again, err = s.MarshalJSON()
			}
			if err != nil {
				return failf("repeated Marshal failed: %v", err)
			}
			if !bytes.Equal(first, again) {
				return failf("Marshal is not deterministic:\n first: %s\n again: %s", first, again)
			}
		}
		// a freshly built, identical Schema value must give the same bytes too
		other, err := json.Marshal(n.buildTree())
		if err != nil || !bytes.Equal(first, other) {
			return failf("equal Schema values marshal differently:\n %s\n %s (%v)", first, other, err)
		}
		return n.verify(first, "")
	})
}

func (n *c19Node) nontrivial() bool {
	nt := false
	var visit func(x *c19Node, depth int)
	visit = func(x *c19Node, depth int) {
		if x.HasOrder && hasDupStrings(x.Order) {
			nt = true
		}
		if len(x.Props) >= 2 && x.HasOrder && len(x.Order) > 0 {
			want := x.expectedKeys()
			sorted := append([]string{}, want...)
			sort.Strings(sorted)
			if !equalStrings(want, sorted) || depth > 0 {
				nt = true
			}
		}
		for _, p := range x.Props {
			if p.Child != nil {
				visit(p.Child, depth+1)
			}
		}
		if x.Items != nil {
			visit(x.Items, depth+1)
		}
		for _, a := range x.AllOf {
			visit(a, depth+1)
		}
		for _, p := range x.Defs {
			if p.Child != nil {
				visit(p.Child, depth+1)
			}
		}
	}
	visit(n, 0)
	return nt
}

func genC19Node(t *rapid.T, depth int) *c19Node {
	n := &c19Node{}
	n.HasProps = rapid.IntRange(0, 9).Draw(t, "hasprops") > 0
	var names []string
	if n.HasProps {
		k := rapid.IntRange(0, 8).Draw(t, "nprops")
		seen := map[string]bool{}
		for i := 0; i < k; i++ {
			nm := rapid.SampledFrom(c19Names).Draw(t, "pname")
			if seen[nm] {
				continue
			}
			seen[nm] = true
			names = append(names, nm)
			p := c19Prop{Name: nm}
			if depth > 0 && rapid.IntRange(0, 3).Draw(t, "nest") == 0 {
				p.Child = genC19Node(t, depth-1)
			} else {
				p.Leaf = rapid.SampledFrom([]string{"", "string", "integer", "object"}).Draw(t, "leaf")
			}
			n.Props = append(n.Props, p)
		}
	}
	switch rapid.IntRange(0, 9).Draw(t, "orderkind") {
	case 0: // nil
	case 1: // empty non-nil
		n.HasOrder, n.Order = true, []string{}
	case 2, 3: // permutation of all names
		n.HasOrder = true
		n.Order = rapid.Permutation(append([]string{}, names...)).Draw(t, "perm")
		if n.Order == nil {
			n.Order = []string{}
		}
	case 4, 5: // subset, permuted
		n.HasOrder = true
		perm := rapid.Permutation(append([]string{}, names...)).Draw(t, "perm")
		k := rapid.IntRange(0, len(perm)).Draw(t, "k")
		n.Order = append([]string{}, perm[:k]...)
	case 6, 7: // superset with absent names interleaved
		n.HasOrder = true
		perm := rapid.Permutation(append([]string{}, names...)).Draw(t, "perm")
		for _, x := range perm {
			if rapid.IntRange(0, 2).Draw(t, "absent") == 0 {
				n.Order = append(n.Order, "absent-"+rapid.SampledFrom([]string{"x", "y", "A", ""}).Draw(t, "an"))
			}
			n.Order = append(n.Order, x)
		}
		if hasDupStrings(n.Order) { // absent names may repeat: keep them distinct unless duplicates were asked for
			seen := map[string]bool{}
			var o []string
			for _, x := range n.Order {
				if !seen[x] {
					o = append(o, x)
				}
				seen[x] = true
			}
			n.Order = o
		}
		if n.Order == nil {
			n.Order = []string{}
		}
	case 8: // free list over the name pool (may contain duplicates)
		n.HasOrder = true
		n.Order = rapid.SliceOfN(rapid.SampledFrom(c19Names), 0, 6).Draw(t, "free")
	default: // duplicate of a real name
		n.HasOrder = true
		perm := rapid.Permutation(append([]string{}, names...)).Draw(t, "perm")
		n.Order = append([]string{}, perm...)
		if len(perm) > 0 {
			n.Order = append(n.Order, perm[rapid.IntRange(0, len(perm)-1).Draw(t, "dupi")])
		}
	}
	if len(names) >= 2 && rapid.IntRange(0, 2).Draw(t, "hasrequired") == 0 {
		perm := rapid.Permutation(append([]string{}, names...)).Draw(t, "reqperm")
		n.Required = perm[:rapid.IntRange(1, len(perm)-1).Draw(t, "reqlen")]
	}
	if len(names) >= 2 && rapid.IntRange(0, 3).Draw(t, "orderlike") == 0 {
		n.OrderLike = rapid.SampledFrom([]string{"propertyOrdering", "propertyOrder", "x-propertyOrder", "x-order", "ui:order", "displayOrder", "order", "PropertyOrder", "propertyorder"}).Draw(t, "orderlikekw")
		perm := rapid.Permutation(append([]string{}, names...)).Draw(t, "orderlikeperm")
		n.OrderLikeList = perm[:rapid.IntRange(1, len(perm)).Draw(t, "orderlikelen")]
	}
	if depth > 0 {
		if rapid.IntRange(0, 5).Draw(t, "items") == 0 {
			n.Items = genC19Node(t, depth-1)
		}
		if rapid.IntRange(0, 5).Draw(t, "allof") == 0 {
			k := rapid.IntRange(1, 2).Draw(t, "nallof")
			for i := 0; i < k; i++ {
				n.AllOf = append(n.AllOf, genC19Node(t, depth-1))
			}
		}
		if rapid.IntRange(0, 5).Draw(t, "defs") == 0 {
			n.Defs = []c19Prop{{Name: "d", Child: genC19Node(t, depth-1)}}
		}
	}
	if rapid.IntRange(0, 3).Draw(t, "title") == 0 {
		n.Title = "t"
	}
	return n
}

func TestC19(t *testing.T) {
	rec := ev.For("C19")
	defer finish(rec)
	rec.Describe("case = a Schema tree (properties over a hostile name pool, PropertyOrder as permutation/subset/superset/absent names/duplicates/nil, nested through properties/items/allOf/$defs to depth 3) marshalled 12 times; plus the exhaustive sub-space (all order lists of length<=4 over {A,B,C,Z} x all subsets of {A,B,C}) in every run. Non-trivial: some node has >=2 properties and a non-empty order whose model key sequence differs from plain sorting, or sits below the root, or an order with duplicate entries. Distinct = distinct case JSON.",
		"'ascending order' of the remaining names is Go string order (byte-wise, equal to code-point order)",
		"property names are valid UTF-8 (encoding/json replaces invalid bytes, which can make two Go keys collide)")

	// exhaustive sub-space
	alpha := []string{"A", "B", "C", "Z"}
	var orders [][]string
	var rec4 func(cur []string)
	rec4 = func(cur []string) {
		orders = append(orders, append([]string{}, cur...))
		if len(cur) == 4 {
			return
		}
		for _, a := range alpha {
			rec4(append(cur, a))
		}
	}
	rec4(nil)
	exh := 0
	for mask := 0; mask < 8 && shard0(); mask++ {
		for _, o := range orders {
			n := &c19Node{HasProps: true, HasOrder: true, Order: o}
			for i, nm := range []string{"A", "B", "C"} {
				if mask&(1<<i) != 0 {
					n.Props = append(n.Props, c19Prop{Name: nm, Leaf: "string"})
				}
			}
			exh++
			rec.Eval(n.nontrivial(), ev.JSON(n), func() any { return n })
			if fl := checkC19(n); fl != nil {
				rec.Fail(n, fl.Msg)
				rec.Flush()
				t.Fatalf("exhaustive sub-space: %s", fl.Msg)
			}
		}
	}
	if shard0() {
		rec.SetExtra("exhaustive_subspace_cases", exh)
		rec.SetExtra("exhaustive_subspace", "all PropertyOrder lists of length<=4 over {A,B,C,Z} x all subsets of {A,B,C} as properties")
	}

	rapid.Check(t, func(t *rapid.T) {
		n := genC19Node(t, rapid.IntRange(0, 3).Draw(t, "depth"))
		n.SharedOrders = rapid.IntRange(0, 2).Draw(t, "sharedorders") == 0
		rec.ClassIf(n.SharedOrders, "orders:carved-from-one-backing-array")
		nt := n.nontrivial()
		rec.ClassIf(n.anyDup(), "duplicate-order-entries")
		rec.ClassIf(!n.anyDup(), "no-duplicates")
		rec.ClassIf(n.HasOrder && len(n.Order) > len(n.Props), "order-longer-than-props")
		rec.ClassIf(n.Items != nil || len(n.AllOf) > 0 || len(n.Defs) > 0, "nested-via-items-allOf-defs")
		rec.ClassIf(strings.Contains(mustJSON(n.Props), "child"), "nested-via-properties")
		rec.Eval(nt, ev.JSON(n), func() any { return n })
		if fl := checkC19(n); fl != nil {
			report(t, rec, n, fl)
		}
		rec.Case()
	})
}

func init() {
	replayers["C19"] = func(raw json.RawMessage) *failure {
		var n c19Node
		if err := json.Unmarshal(raw, &n); err != nil {
			return failf("REPLAY-HARNESS-ERROR: %v", err)
		}
		return checkC19(&n)
	}
}
