package props

// C13 — A Resolved and shared schemas are safe for concurrent use.
//
// Generator: a workload — 1-3 shared Resolved values (schemas drawn to exercise every lazily
// initialised or cached structure: pattern, patternProperties, required, $dynamicRef,
// unevaluated*, uniqueItems), the shared Schema trees behind them, shared Go types with a
// shared TypeSchemas map, a shared caching Loader; k = 2-8 goroutines x m = 1-12 operations
// from {Validate, ApplyDefaults on a private copy, Marshal, CloneSchemas, Resolve, For};
// all goroutines are released by one barrier.
// Oracles: (1) the Go race detector (this check is built with -race and run with
// GORACE=halt_on_error=1; a report kills the process and the journalled workload becomes the
// replay); (2) sequential equivalence: every operation's result equals the result of the same
// operation executed alone beforehand.

import (
	"encoding/json"
	"fmt"
	"net/url"
	"reflect"
	"sort"
	"sync"
	"sync/atomic"
	"testing"

	"github.com/google/jsonschema-go/jsonschema"
	"pgregory.net/rapid"

	"verif/ev"
	"verif/jv"
	"verif/refmodel"
	"verif/sgen"
	"verif/tgen"
)

type c13Op struct {
	Kind   string `json:"kind"` // validate | defaults | marshal | clone | resolve | for
	Schema int    `json:"schema"`
	Inst   int    `json:"inst"`
	Type   int    `json:"type"`
}

type c13Case struct {
	Docs      []*jv.V    `json:"docs"`
	Dynamic   *c06Case   `json:"dynamic,omitempty"` // an extra shared Resolved with $dynamicRef (index len(Docs))
	Instances []*jv.V    `json:"instances"`
	Types     []*tgen.TD `json:"types"`
	Override  bool       `json:"override"`
	Workers   [][]c13Op  `json:"workers"`
	Repeat    int        `json:"repeat"`
	// PartialOrder: every object schema of the documents gets a PropertyOrder naming only its first
	// property, in a slice with spare capacity (what a caller's append leaves behind); the rest is
	// documented to follow in alphabetical order.
	PartialOrder bool `json:"partial_order,omitempty"`
}

type c13World struct {
	schemas  []*jsonschema.Schema
	resolved []*jsonschema.Resolved
	opts     []*jsonschema.ResolveOptions
	insts    []any
	types    []reflect.Type
	forOpts  *jsonschema.ForOptions
}

// c13Unique numbers the regular expressions of the resolve-new operation within this process.
var c13Unique atomic.Int64

func buildC13World(c *c13Case) (*c13World, *failure) {
	w := &c13World{}
	for _, d := range c.Docs {
		var s jsonschema.Schema
		if err := json.Unmarshal([]byte(d.JSON()), &s); err != nil {
			return nil, failf("Unmarshal rejects a well-formed document: %v", err)
		}
		if c.PartialOrder {
			for _, x := range schemaList(&s) {
				if len(x.Properties) >= 2 {
					ks := make([]string, 0, len(x.Properties))
					for k := range x.Properties {
						ks = append(ks, k)
					}
					sort.Strings(ks)
					po := make([]string, 0, 8)
					x.PropertyOrder = append(po, ks[len(ks)-1])
				}
			}
		}
		w.schemas = append(w.schemas, &s)
		w.opts = append(w.opts, nil)
	}
	if c.Dynamic != nil {
		var s jsonschema.Schema
		if err := json.Unmarshal([]byte(c.Dynamic.Root.JSON()), &s); err != nil {
			return nil, failf("Unmarshal rejects a well-formed document: %v", err)
		}
		// a shared caching loader: every goroutine gets the very same Schema objects
		cache := map[string]*jsonschema.Schema{}
		for k, d := range c.Dynamic.Docs {
			var ls jsonschema.Schema
			if err := json.Unmarshal([]byte(d.JSON()), &ls); err != nil {
				return nil, failf("Unmarshal rejects a well-formed document: %v", err)
			}
			cache[k] = &ls
		}
		var mu sync.Mutex
		loader := func(u *url.URL) (*jsonschema.Schema, error) {
			mu.Lock()
			defer mu.Unlock()
			if s, ok := cache[u.String()]; ok {
				return s, nil
			}
			return nil, fmt.Errorf("no such document %s", u)
		}
		w.schemas = append(w.schemas, &s)
		w.opts = append(w.opts, &jsonschema.ResolveOptions{BaseURI: c06RootURI, Loader: loader})
	}
	for i, s := range w.schemas {
		rs, err := s.Resolve(w.opts[i])
		if err != nil {
			return nil, failf("Resolve rejects a well-formed document: %v", err)
		}
		w.resolved = append(w.resolved, rs)
	}
	for _, v := range c.Instances {
		w.insts = append(w.insts, v.ToAny())
	}
	for _, td := range c.Types {
		t, err := tgen.Build(td)
		if err != nil {
			return nil, failf("HARNESS: cannot build type: %v", err)
		}
		w.types = append(w.types, t)
	}
	w.forOpts = &jsonschema.ForOptions{IgnoreInvalidTypes: true}
	if c.Override {
		w.forOpts.TypeSchemas = map[reflect.Type]*jsonschema.Schema{
			reflect.TypeFor[tgen.Inner](): overrideSchema("Inner", reflect.TypeFor[tgen.Inner]()),
			reflect.TypeFor[tgen.NInt]():  overrideSchema("NInt", reflect.TypeFor[tgen.NInt]()),
			// a pointer-keyed entry (never consulted by the library; it must not be written to either)
			reflect.TypeFor[*tgen.Base](): overrideSchema("Base", reflect.TypeFor[tgen.Base]()),
		}
	}
	return w, nil
}

// run executes one operation and returns a comparable summary of its result.
func (w *c13World) run(op c13Op, c *c13Case) string {
	si := op.Schema % len(w.schemas)
	switch op.Kind {
	case "validate":
		return fmt.Sprint(w.resolved[si].Validate(w.insts[op.Inst%len(w.insts)]) == nil)
	case "defaults":
		x := c.Instances[op.Inst%len(c.Instances)].ToAny() // private copy
		err := w.resolved[si].ApplyDefaults(&x)
		b, _ := json.Marshal(x)
		return fmt.Sprintf("%v %s", err == nil, b)
	case "marshal":
		b, err := json.Marshal(w.schemas[si])
		return fmt.Sprintf("%v %x", err == nil, ev.Hash64(b))
	case "clone":
		b, err := json.Marshal(w.schemas[si].CloneSchemas())
		return fmt.Sprintf("%v %x", err == nil, ev.Hash64(b))
	case "resolve":
		rs, err := w.schemas[si].Resolve(w.opts[si])
		if err != nil {
			return "resolve-error"
		}
		return fmt.Sprint(rs.Validate(w.insts[op.Inst%len(w.insts)]) == nil)
	case "resolve-new":
		// a brand-new Schema with regular expressions nobody has compiled yet, resolved by this
		// goroutine alone: nothing is shared, so nothing may be shared behind the scenes either
		// (the unique part matches no instance, so the verdict does not depend on it)
		u := c13Unique.Add(1)
		text := fmt.Sprintf(`{"patternProperties":{"^zq%dq$":{"type":"integer"},"zq%dx":false},"properties":{"s":{"pattern":"^zq%d[a-c]+$"}},"additionalProperties":{"not":{"pattern":"zq%dy"}}}`, u, u, u, u)
		var s jsonschema.Schema
		if err := json.Unmarshal([]byte(text), &s); err != nil {
			return "unmarshal-error"
		}
		rs, err := s.Resolve(nil)
		if err != nil {
			return "resolve-error"
		}
		return fmt.Sprint(rs.Validate(w.insts[op.Inst%len(w.insts)]) == nil)
	case "for":
		if len(w.types) == 0 {
			return "no-types"
		}
		s, err := jsonschema.ForType(w.types[op.Type%len(w.types)], w.forOpts)
		if err != nil || s == nil {
			return fmt.Sprintf("for-error-or-nil %v", err == nil)
		}
		b, _ := json.Marshal(s)
		return fmt.Sprintf("%x", ev.Hash64(b))
	}
	return "?"
}

func checkC13(c *c13Case, rec *ev.Recorder) *failure {
	return guard(func() *failure {
		w, fl := buildC13World(c)
		if fl != nil {
			return fl
		}
		// sequential reference results
		want := make([][]string, len(c.Workers))
		for g, ops := range c.Workers {
			for _, op := range ops {
				want[g] = append(want[g], w.run(op, c))
			}
		}
		rep := c.Repeat
		if rep < 1 {
			rep = 1
		}
		for r := 0; r < rep; r++ {
			// a fresh, untouched world for every concurrent run: lazily initialised structures
			// must be exercised for the first time by the racing goroutines themselves
			w, fl := buildC13World(c)
			if fl != nil {
				return fl
			}
			got := make([][]string, len(c.Workers))
			var wg sync.WaitGroup
			start := make(chan struct{})
			panics := make([]any, len(c.Workers))
			for g := range c.Workers {
				wg.Add(1)
				go func(g int) {
					defer wg.Done()
					defer func() {
						if p := recover(); p != nil {
							panics[g] = p
						}
					}()
					<-start
					for _, op := range c.Workers[g] {
						got[g] = append(got[g], w.run(op, c))
					}
				}(g)
			}
			close(start)
			wg.Wait()
			for g := range c.Workers {
				if panics[g] != nil {
					return failf("goroutine %d panicked during concurrent use: %v", g, panics[g])
				}
				for i := range c.Workers[g] {
					if i >= len(got[g]) || got[g][i] != want[g][i] {
						return failf("goroutine %d, operation %d (%+v): concurrent result %q differs from the result of the same call executed alone %q", g, i, c.Workers[g][i], got[g], want[g][i])
					}
				}
			}
		}
		return nil
	})
}

func TestC13(t *testing.T) {
	rec := ev.For("C13")
	defer finish(rec)
	rec.Describe("case = a workload: 1-3 schema documents (object/unevaluated/array/string lenses: pattern, patternProperties, required, uniqueItems, unevaluated*) plus, in half of the cases, a $dynamicRef topology served by a shared caching Loader; each resolved once and shared; 3-5 shared instances; 1-3 shared Go types with an optional shared TypeSchemas map; 2-8 goroutines x 1-12 operations from {Validate on a shared instance, ApplyDefaults on a private copy, Marshal, CloneSchemas+Marshal, Resolve of the shared Schema + Validate, Resolve + Validate of a brand-new Schema whose regular expressions occur nowhere else in the process, ForType}; in half of the workloads every object schema carries a partial PropertyOrder in a slice with spare capacity; one barrier releases all goroutines. Oracles: Go race detector (halt_on_error; happens-before based, so it flags unsynchronised conflicting accesses that occur in the run whatever their timing) and equality of every operation's result with the same operation executed alone beforehand. Non-trivial: >=2 goroutines operate on the same shared object. Distinct = distinct workload.",
		"interleavings are chosen by the Go scheduler, not enumerated; a schedule cannot be shrunk, so the replay is the journalled workload re-run 50 times",
		"results compared by verdict / bytes hash / error-ness")
	rapid.Check(t, func(t *rapid.T) {
		c := &c13Case{Repeat: 2}
		n := func(k int, l string) int { return rapid.IntRange(0, k-1).Draw(t, l) }
		for i, k := 0, 1+n(3, "ndocs"); i < k; i++ {
			lens := rapid.SampledFrom([]sgen.Lens{sgen.LensObject, sgen.LensUneval, sgen.LensArray, sgen.LensString, sgen.LensAny}).Draw(t, "lens")
			d := refmodel.D2020
			if n(5, "d7") == 0 {
				d = refmodel.D7
			}
			c.Docs = append(c.Docs, sgen.Draw(t, sgen.Opts{Draft: d, MaxDepth: 3, Lens: lens}))
		}
		if n(2, "defaultsdoc") == 0 {
			// a schema with defaults at several depths: concurrent ApplyDefaults on private copies
			// must not share what it inserts
			dd := genC15Schema(t, 2+n(2, "ddepth"))
			c.Docs = append(c.Docs, dd)
			for i := 0; i < 2; i++ {
				c.Instances = append(c.Instances, genC15Instance(t, dd, 3))
			}
		}
		if n(3, "longenum") == 0 {
			// an enum long enough for whatever index or cache an implementation may build lazily
			e := &jv.V{K: jv.Arr}
			for i, k := 0, 16+n(10, "enumlen"); i < k; i++ {
				if i%3 == 0 {
					e.A = append(e.A, jv.StrV(fmt.Sprintf("v%d", i)))
				} else {
					e.A = append(e.A, jv.NumV(fmt.Sprint(i)))
				}
			}
			c.Docs = append(c.Docs, jv.ObjV(jv.Member{K: "properties", V: jv.ObjV(jv.Member{K: "k", V: jv.ObjV(jv.Member{K: "enum", V: e})})}, jv.Member{K: "items", V: jv.ObjV(jv.Member{K: "enum", V: e.Clone()})}))
			c.Instances = append(c.Instances, jv.ObjV(jv.Member{K: "k", V: jv.NumV("7")}), jv.ArrV(jv.StrV("v3"), jv.NumV("4"), jv.StrV("nope")), jv.ObjV(jv.Member{K: "k", V: jv.StrV("v15")}))
		}
		if n(2, "dynamic") == 0 {
			c.Dynamic = genC06(t)
			c.Instances = append(c.Instances, c.Dynamic.Calls...)
			if len(c.Instances) > 3 {
				c.Instances = c.Instances[:3]
			}
		}
		c.Instances = append(c.Instances, sgen.Instances(t, c.Docs[0], 3)...)
		for i, k := 0, 1+n(3, "ntypes"); i < k; i++ {
			c.Types = append(c.Types, tgen.GenTD(t, tgen.Opts{MaxDepth: 2, Std: true}))
		}
		c.Override = n(2, "override") == 0
		c.PartialOrder = n(2, "partialorder") == 0
		nschemas := len(c.Docs)
		if c.Dynamic != nil {
			nschemas++
		}
		kinds := []string{"validate", "validate", "validate", "defaults", "marshal", "clone", "resolve", "for", "resolve-new"}
		users := map[string]map[int]bool{}
		for g, k := 0, 2+n(7, "goroutines"); g < k; g++ {
			var ops []c13Op
			for i, m := 0, 1+n(12, "nops"); i < m; i++ {
				op := c13Op{Kind: rapid.SampledFrom(kinds).Draw(t, "kind"), Schema: n(nschemas, "schema"), Inst: n(len(c.Instances), "inst"), Type: n(len(c.Types), "type")}
				ops = append(ops, op)
				key := fmt.Sprintf("schema%d", op.Schema)
				if op.Kind == "for" {
					key = fmt.Sprintf("type%d", op.Type)
				}
				if users[key] == nil {
					users[key] = map[int]bool{}
				}
				users[key][g] = true
			}
			c.Workers = append(c.Workers, ops)
		}
		// non-trivial: some shared object is used by >= 2 goroutines
		nt := false
		for _, u := range users {
			if len(u) >= 2 {
				nt = true
			}
		}
		ev.Journal("C13", c)
		for _, ops := range c.Workers {
			for _, op := range ops {
				rec.Class("op:" + op.Kind)
			}
		}
		rec.Class(fmt.Sprintf("goroutines:%d", len(c.Workers)))
		rec.ClassIf(c.Dynamic != nil, "shared:dynamicRef-topology+caching-loader")
		rec.ClassIf(c.PartialOrder, "shared:schemas-with-partial-PropertyOrder")
		rec.Eval(nt, ev.JSON(c), func() any {
			return map[string]any{"docs": c.Docs, "workers": c.Workers, "types": len(c.Types), "dynamic": c.Dynamic != nil}
		})
		if fl := checkC13(c, rec); fl != nil {
			if isHarnessFailure(fl) {
				rec.Inconclusive(fl.Msg)
				rec.Flush()
				t.Fatalf("%s", fl.Msg)
			}
			report(t, rec, c, fl)
		}
		rec.Case()
	})
}

func init() {
	replayers["C13"] = func(raw json.RawMessage) *failure {
		var c c13Case
		if err := json.Unmarshal(raw, &c); err != nil {
			return failf("REPLAY-HARNESS-ERROR: %v", err)
		}
		fixNils(c.Instances)
		if c.Dynamic != nil {
			fixNils(c.Dynamic.Calls)
		}
		c.Repeat = 50
		return checkC13(&c, nil)
	}
}
