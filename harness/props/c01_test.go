package props

// C01 — Validate decides exactly the draft 2020-12 validity relation.
//
// Generator: sgen documents in 2020-12 mode (full vocabulary, $ref/$defs/$anchor inside the
// document, recursion only through instance-descending keywords) x instances (schema-directed
// + mutations, and free draws), validated in the canonical representation.
// Oracle: the reference evaluator (refmodel), compared with err == nil of
// Unmarshal -> Resolve(nil) -> Validate.

import (
	"encoding/json"
	"errors"
	"math/big"
	"strings"
	"testing"

	"github.com/google/jsonschema-go/jsonschema"
	"pgregory.net/rapid"

	"verif/ev"
	"verif/jv"
	"verif/refmodel"
	"verif/sgen"
)

type schemaCase struct {
	Schema    *jv.V   `json:"schema"`
	Instances []*jv.V `json:"instances"`
}

var two50 = new(big.Rat).SetInt(new(big.Int).Lsh(big.NewInt(1), 50))

// stripUnsafeMultipleOf enforces the property's own restriction on multipleOf ("quotient
// below 2^53, where the documented float arithmetic is exact") by construction: when any
// number of magnitude >= 2^50 occurs in an instance, multipleOf keywords are removed from the
// schema. Returns the number of keywords removed.
func stripUnsafeMultipleOf(schema *jv.V, insts []*jv.V) int {
	big := false
	for _, i := range insts {
		i.Walk(func(n *jv.V) {
			if n.K == jv.Num && new(bigRat).Abs(n.N).Cmp(two50) >= 0 {
				big = true
			}
		})
	}
	if !big {
		return 0
	}
	removed := 0
	schema.Walk(func(n *jv.V) {
		if n.K == jv.Obj && n.Has("multipleOf") {
			if m := n.Get("multipleOf"); m.K == jv.Num {
				n.Del("multipleOf")
				removed++
			}
		}
	})
	return removed
}

type bigRat = big.Rat

// applicable says to which instance kinds a keyword applies ("" = all).
var applicable = map[string]jv.Kind{
	"multipleOf": jv.Num, "minimum": jv.Num, "maximum": jv.Num, "exclusiveMinimum": jv.Num, "exclusiveMaximum": jv.Num,
	"minLength": jv.Str, "maxLength": jv.Str, "pattern": jv.Str,
	"prefixItems": jv.Arr, "items": jv.Arr, "contains": jv.Arr, "minContains": jv.Arr, "maxContains": jv.Arr,
	"minItems": jv.Arr, "maxItems": jv.Arr, "uniqueItems": jv.Arr, "unevaluatedItems": jv.Arr, "additionalItems": jv.Arr,
	"properties": jv.Obj, "patternProperties": jv.Obj, "additionalProperties": jv.Obj, "propertyNames": jv.Obj,
	"required": jv.Obj, "dependentRequired": jv.Obj, "dependentSchemas": jv.Obj, "minProperties": jv.Obj,
	"maxProperties": jv.Obj, "unevaluatedProperties": jv.Obj, "dependencies": jv.Obj,
}

var anyKindKW = map[string]bool{"enum": true, "const": true, "allOf": true, "anyOf": true, "oneOf": true, "not": true, "if": true, "$ref": true, "$dynamicRef": true}

func applicableCount(s, inst *jv.V) int {
	if s.K != jv.Obj {
		return 0
	}
	n := 0
	for _, m := range s.O {
		if anyKindKW[m.K] {
			n++
		} else if k, ok := applicable[m.K]; ok && k == inst.K {
			n++
		}
	}
	return n
}

// libVerdict runs Unmarshal -> Resolve -> Validate. stage tells where an error arose.
func libVerdict(doc string, opts *jsonschema.ResolveOptions, inst any) (accepted bool, stage string, err error) {
	var s jsonschema.Schema
	if err := json.Unmarshal([]byte(doc), &s); err != nil {
		return false, "unmarshal", err
	}
	rs, err := s.Resolve(opts)
	if err != nil {
		return false, "resolve", err
	}
	if err := rs.Validate(inst); err != nil {
		return false, "validate", err
	}
	return true, "", nil
}

func keywordHistogram(rec *ev.Recorder, s *jv.V) {
	seen := map[string]bool{}
	var walk func(v *jv.V)
	walk = func(v *jv.V) {
		if v.K != jv.Obj {
			return
		}
		for _, m := range v.O {
			if !seen[m.K] {
				seen[m.K] = true
			}
		}
	}
	_ = walk
	// schema keywords only: walk subschema structure through the model's notion of children
	var visit func(v *jv.V, depth int)
	visit = func(v *jv.V, depth int) {
		if v == nil || v.K != jv.Obj || depth > 8 {
			return
		}
		for _, m := range v.O {
			seen[m.K] = true
			switch m.V.K {
			case jv.Obj:
				switch m.K {
				case "properties", "patternProperties", "$defs", "definitions", "dependentSchemas", "dependencies":
					for _, mm := range m.V.O {
						visit(mm.V, depth+1)
					}
				case "const", "default", "dependentRequired":
				default:
					visit(m.V, depth+1)
				}
			case jv.Arr:
				switch m.K {
				case "allOf", "anyOf", "oneOf", "prefixItems", "items":
					for _, e := range m.V.A {
						visit(e, depth+1)
					}
				}
			}
		}
	}
	visit(s, 0)
	for k := range seen {
		rec.Class("kw:" + k)
	}
}

func checkSchemaCase(c *schemaCase, draft refmodel.Draft, rec *ev.Recorder) *failure {
	doc := c.Schema.JSON()
	m, err := refmodel.New(&refmodel.Universe{Root: c.Schema, RootURI: ""}, draft)
	if err != nil {
		return failf("HARNESS: model cannot index generated schema: %v\n%s", err, doc)
	}
	if err := m.ResolveEverything(); err != nil {
		return failf("HARNESS: generated schema has a dangling reference: %v\n%s", err, doc)
	}
	return guard(func() *failure {
		var s jsonschema.Schema
		if err := json.Unmarshal([]byte(doc), &s); err != nil {
			return failf("Unmarshal rejects a well-formed schema document: %v\n%s", err, doc)
		}
		rs, err := s.Resolve(nil)
		if err != nil {
			return failf("Resolve rejects a well-formed schema document: %v\n%s", err, doc)
		}
		for _, inst := range c.Instances {
			want, err := m.Validate(inst)
			if errors.Is(err, refmodel.ErrBudget) || (err == nil && m.NaiveCost > 2e6) {
				// in-place applicators fanning out over shared definitions: the schema is finite and
				// acyclic, but an evaluator without a memo (the library) walks exponentially many
				// paths. Left out (counted): the property is about verdicts, not about time.
				if rec != nil {
					rec.Class("discard:exponentially-many-in-place-paths")
				}
				continue
			}
			if err != nil {
				return failf("HARNESS: model error: %v\n%s", err, doc)
			}
			visited := map[*refmodel.Node]bool{}
			if rec != nil {
				m.Trace = func(n *refmodel.Node) { visited[n] = true }
				_, _ = m.Validate(inst)
				m.Trace = nil
			}
			got := rs.Validate(inst.ToAny())
			if rec != nil {
				nt := applicableCount(c.Schema, inst) >= 2 || len(visited) >= 3
				rec.ClassIf(want, "verdict:valid")
				rec.ClassIf(!want, "verdict:invalid")
				rec.Class("instance:" + inst.K.String())
				rec.Eval(nt, []byte(doc+"\x00"+inst.Canon()), func() any {
					return map[string]any{"schema": c.Schema, "instance": inst, "valid": want}
				})
			}
			if (got == nil) != want {
				return failf("verdict differs: library accepts=%v, specification (reference evaluator) says valid=%v\n schema:   %s\n instance: %s\n library error: %v", got == nil, want, doc, inst.JSON(), got)
			}
		}
		return nil
	})
}

func isHarnessFailure(fl *failure) bool {
	// (the marker may follow a path prefix such as "T/field: ")
	return fl != nil && strings.Contains(fl.Msg[:min(len(fl.Msg), 200)], "HARNESS:")
}

func TestC01(t *testing.T) {
	rec := ev.For("C01")
	defer finish(rec)
	if n, mm, err := runModelOnSuite(); err != nil || len(mm) > 0 || n < 1500 {
		rec.Inconclusive("model-invalid: reference model does not reproduce the official suite")
		t.Fatalf("reference model invalid: %v %v", err, mm)
	}
	rec.Describe("case = (2020-12 schema document from the grammar generator sgen: full vocabulary, boolean schemas at every position, $defs/$anchor/$ref within the document, unevaluated*, lenses concentrating on numeric/string/array/object/logic/reference/unevaluated interactions; 4 instances: schema-directed satisfier + 0-2 single-point mutations, or free pool draws), instance validated as decoded by encoding/json. Oracle: independent reference evaluator over raw JSON (pinned to the 2,012 official suite verdicts). Non-trivial: >=2 root keywords applicable to the instance's type, or the evaluation visited >=3 distinct subschemas. Distinct = distinct (schema text, canonical instance).",
		"patterns restricted to the common subset of RE2 and ECMA-262; the model uses Go regexp (documented deviation)",
		"format/content* never assert (documented deviation)",
		"multipleOf removed from the schema when an instance holds a number >= 2^50 (the property's restriction to exact float arithmetic); integer-valued keywords are small and spelled without exponent",
		"numbers are exactly representable in float64")
	rapid.Check(t, watched("C01", propC01(rec)))
}

func init() {
	replayers["C01"] = func(raw json.RawMessage) *failure {
		var c schemaCase
		if err := json.Unmarshal(raw, &c); err != nil {
			return failf("REPLAY-HARNESS-ERROR: %v", err)
		}
		fixNils(c.Instances)
		fl := checkSchemaCase(&c, refmodel.D2020, nil)
		if isHarnessFailure(fl) {
			return failf("REPLAY-HARNESS-ERROR: %s", fl.Msg)
		}
		return fl
	}
}

// propC01 is the property body, shared by TestC01 (rapid) and FuzzC01 (native fuzzing over
// rapid's bit stream).
func propC01(rec *ev.Recorder) func(t *rapid.T) {
	depth := 3
	if thorough() {
		depth = 4
	}
	return func(t *rapid.T) {
		c := &schemaCase{}
		if rapid.IntRange(0, 5).Draw(t, "annotation-lens") == 0 {
			// the focused annotation-flow generator of C07 (in-place applicator trees over a small
			// shared pool of names/items), with four of its exhaustive instances
			c7 := genC07(t)
			c.Schema = c7.Schema
			all := c07Instances(c7.Mode)
			for i := 0; i < 4; i++ {
				c.Instances = append(c.Instances, all[rapid.IntRange(0, len(all)-1).Draw(t, "c07inst")])
			}
			rec.Class("lens:annotation-flow(C07 generator)")
		} else {
			c.Schema = sgen.Draw(t, sgen.Opts{Draft: refmodel.D2020, MaxDepth: depth})
			c.Instances = sgen.Instances(t, c.Schema, 4)
		}
		if n := stripUnsafeMultipleOf(c.Schema, c.Instances); n > 0 {
			rec.ClassN("multipleOf-removed-by-construction", int64(n))
		}
		keywordHistogram(rec, c.Schema)
		ev.SetCurrent("C01", c)
		fl := checkSchemaCase(c, refmodel.D2020, rec)
		if isHarnessFailure(fl) {
			rec.Inconclusive("generator-or-model-error: " + fl.Msg)
			rec.Flush()
			t.Fatalf("%s", fl.Msg)
		}
		if fl != nil {
			report(t, rec, c, fl)
		}
		rec.Case()
	}
}
