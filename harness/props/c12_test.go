package props

// C12 — enum, const and uniqueItems decide by JSON equality, independent of the per-call
// hash seed.
//
// Oracle: definitional, stated twice: (1) with the harness's canonical equality over the
// jv trees, (2) with the library's exported Equal over the very values the schema and the
// instance hold; every Validate repeated 5 times (fresh hash seed per call) must agree; and,
// through the hook, Equal(x,y) => hash(x) == hash(y) for every generated pair and 3 seeds.

import (
	"encoding/json"
	"fmt"
	"reflect"
	"testing"

	"github.com/google/jsonschema-go/jsonschema"
	"pgregory.net/rapid"

	"verif/ev"
	"verif/jv"
	"verif/repr"
)

type c12Case struct {
	Mode    string  `json:"mode"` // enum | const | unique
	FromDoc bool    `json:"from_doc"`
	List    []*jv.V `json:"list"` // enum values, or the single const
	ListCh  [][]int `json:"list_choices,omitempty"`
	Inst    *jv.V   `json:"instance"`
	InstCh  []int   `json:"instance_choices"`
	Extra   string  `json:"extra_keywords,omitempty"` // "" | "type" : sibling keyword on the schema
	InstRep string  `json:"instance_repr,omitempty"`
}

func (c *c12Case) schema() (*jsonschema.Schema, []any, error) {
	s := &jsonschema.Schema{}
	var vals []any
	if c.FromDoc {
		var doc string
		switch c.Mode {
		case "enum":
			doc = `{"enum":` + jv.ArrV(c.List...).JSON() + `}`
		case "const":
			doc = `{"const":` + c.List[0].JSON() + `}`
		default:
			doc = `{"uniqueItems":true}`
		}
		if err := json.Unmarshal([]byte(doc), s); err != nil {
			return nil, nil, fmt.Errorf("Unmarshal(%s): %w", doc, err)
		}
		switch c.Mode {
		case "enum":
			vals = s.Enum
		case "const":
			if s.Const == nil {
				return nil, nil, fmt.Errorf("Unmarshal(%s) lost const", doc)
			}
			vals = []any{*s.Const}
		}
		return s, vals, nil
	}
	for i, v := range c.List {
		var ch []int
		if i < len(c.ListCh) {
			ch = c.ListCh[i]
		}
		vals = append(vals, (&repr.Builder{C: &repr.Script{Seq: ch}, O: c11Opts}).Build(v))
	}
	switch c.Mode {
	case "enum":
		s.Enum = vals
		if s.Enum == nil {
			s.Enum = []any{}
		}
	case "const":
		s.Const = &vals[0]
	default:
		s.UniqueItems = true
	}
	return s, vals, nil
}

// elements returns the elements of a Go value representing a JSON array.
func elements(x any) ([]any, bool) {
	v := reflect.ValueOf(x)
	for v.IsValid() && (v.Kind() == reflect.Pointer || v.Kind() == reflect.Interface) {
		v = v.Elem()
	}
	if !v.IsValid() || (v.Kind() != reflect.Slice && v.Kind() != reflect.Array) {
		return nil, false
	}
	out := make([]any, v.Len())
	for i := range out {
		out[i] = v.Index(i).Interface()
	}
	return out, true
}

func (c *c12Case) wantCanonical() bool {
	switch c.Mode {
	case "enum":
		for _, l := range c.List {
			if jv.Equal(l, c.Inst) {
				return true
			}
		}
		return false
	case "const":
		return jv.Equal(c.List[0], c.Inst)
	default:
		if c.Inst.K != jv.Arr {
			return true
		}
		for i := range c.Inst.A {
			for j := i + 1; j < len(c.Inst.A); j++ {
				if jv.Equal(c.Inst.A[i], c.Inst.A[j]) {
					return false
				}
			}
		}
		return true
	}
}

var hashLaw func(x, y any) *failure // set by the verif-tagged file

func checkC12(c *c12Case) (fl *failure, harnessErr string) {
	inst := (&repr.Builder{C: &repr.Script{Seq: c.InstCh}, O: c11Opts}).Build(c.Inst)
	if !hasLooseFloat32(c.Inst) {
		if msg := selfCheckRepr(inst, c.Inst); msg != "" {
			return nil, msg
		}
	}
	c.InstRep = repr.Describe(inst)
	fl = guard(func() *failure {
		s, vals, err := c.schema()
		if err != nil {
			return failf("building the schema failed: %v", err)
		}
		rs, err := s.Resolve(nil)
		if err != nil {
			return failf("Resolve failed on a well-formed %s schema: %v", c.Mode, err)
		}
		// definitional oracle with the library's Equal
		var wantLib bool
		switch c.Mode {
		case "enum":
			for _, l := range vals {
				if jsonschema.Equal(l, inst) {
					wantLib = true
				}
			}
		case "const":
			wantLib = jsonschema.Equal(vals[0], inst)
		default:
			wantLib = true
			if els, ok := elements(inst); ok {
				for i := range els {
					for j := i + 1; j < len(els); j++ {
						if jsonschema.Equal(els[i], els[j]) {
							wantLib = false
						}
					}
				}
			}
		}
		wantCanon := c.wantCanonical()
		for rep := 0; rep < 5; rep++ {
			got := rs.Validate(inst) == nil
			if got != wantCanon {
				return failf("%s: Validate accepts=%v but JSON equality says %v (call %d)\n list=%s\n instance=%s as %s", c.Mode, got, wantCanon, rep, jv.ArrV(c.List...).JSON(), c.Inst.JSON(), c.InstRep)
			}
			if got != wantLib {
				return failf("%s: Validate accepts=%v but the library's own Equal says %v (call %d)\n list=%s\n instance=%s as %s", c.Mode, got, wantLib, rep, jv.ArrV(c.List...).JSON(), c.Inst.JSON(), c.InstRep)
			}
		}
		if hashLaw != nil && hooksOn() {
			var pool []any
			pool = append(pool, vals...)
			pool = append(pool, inst)
			if els, ok := elements(inst); ok {
				pool = append(pool, els...)
			}
			if len(pool) > 12 {
				pool = pool[:12]
			}
			for i := range pool {
				for j := i; j < len(pool); j++ {
					if f := hashLaw(pool[i], pool[j]); f != nil {
						return f
					}
				}
			}
		}
		return nil
	})
	return fl, ""
}

func genUniqueArray(t *rapid.T, o jv.Opts) *jv.V {
	n := rapid.IntRange(0, 8).Draw(t, "ulen")
	arr := &jv.V{K: jv.Arr, A: []*jv.V{}}
	eo := o
	eo.MaxDepth = 2
	for i := 0; i < n; i++ {
		switch k := rapid.IntRange(0, 9).Draw(t, "uel"); {
		case i > 0 && k == 0:
			arr.A = append(arr.A, jv.EquivalentCopy(t, arr.A[rapid.IntRange(0, i-1).Draw(t, "src")]))
		case i > 0 && k <= 2:
			arr.A = append(arr.A, jv.Mutate(t, arr.A[rapid.IntRange(0, i-1).Draw(t, "src")], eo))
		default:
			arr.A = append(arr.A, jv.Gen(eo).Draw(t, "el"))
		}
	}
	// occasionally move the last element (possibly a duplicate) to a random position
	if n > 2 && rapid.Bool().Draw(t, "move") {
		j := rapid.IntRange(0, n-1).Draw(t, "to")
		arr.A[j], arr.A[n-1] = arr.A[n-1], arr.A[j]
	}
	return arr
}

func TestC12(t *testing.T) {
	rec := ev.For("C12")
	defer finish(rec)
	rec.Describe("case = (mode enum|const|uniqueItems, schema built from a JSON document or as a Schema struct holding mixed Go representations, instance in a mixed representation); arrays of length 0-8 with planted duplicates at random positions, equal-but-not-identical pairs (1/1.0/uint8(1)/json.Number(\"1.00\"), permuted object keys, nested) and near-duplicates one leaf apart; each Validate repeated 5 times (fresh maphash seed per call). Non-trivial: uniqueItems array holding an equal pair that is not textually identical or a near-duplicate pair; enum whose match is not at index 0; const/enum compared across different representations. Distinct = distinct case JSON.",
		"values inside a schema that came from a JSON document are float64-exact (encoding/json would round anything else before the library sees it)",
		"hash law checked through the verif hook VerifHash when hooks are compiled in")
	o := jv.Opts{MaxDepth: 2, MaxLen: 3, Wide: true}
	rapid.Check(t, func(t *rapid.T) {
		c := &c12Case{}
		c.Mode = rapid.SampledFrom([]string{"enum", "const", "unique", "unique"}).Draw(t, "mode")
		c.FromDoc = rapid.Bool().Draw(t, "fromdoc")
		vo := o
		if c.FromDoc {
			vo.Wide = false
		}
		nt := false
		switch c.Mode {
		case "unique":
			c.Inst = genUniqueArray(t, o)
			if rapid.IntRange(0, 19).Draw(t, "nonarray") == 0 {
				c.Inst = jv.Gen(o).Draw(t, "inst")
			}
			if c.Inst.K == jv.Arr {
				for i := range c.Inst.A {
					for j := i + 1; j < len(c.Inst.A); j++ {
						if jv.Equal(c.Inst.A[i], c.Inst.A[j]) && c.Inst.A[i].JSON() != c.Inst.A[j].JSON() {
							nt = true
						}
					}
				}
				rec.Class(fmt.Sprintf("unique-len-%d", len(c.Inst.A)))
			}
		default:
			n := 1
			if c.Mode == "enum" {
				n = rapid.IntRange(0, 5).Draw(t, "nenum")
			}
			longStrings := c.Mode == "enum" && rapid.IntRange(0, 5).Draw(t, "longstrings") == 0
			if longStrings {
				// a long enum made of strings only, some of which read like numbers: a number (in
				// particular a json.Number, whose Go kind is string) equals none of them
				n = rapid.IntRange(9, 14).Draw(t, "nlong")
				numberLike := []string{"1", "2.5", "-0", "1e3", "0", "12", "1.0", "100", "-1", "0.5"}
				seen := map[string]bool{}
				for len(c.List) < n {
					var sv string
					if rapid.Bool().Draw(t, "numlike") {
						sv = rapid.SampledFrom(numberLike).Draw(t, "numlikestr")
					} else {
						sv = rapid.SampledFrom(jv.StrPool).Draw(t, "plainstr") + fmt.Sprint(len(c.List))
					}
					if !seen[sv] {
						seen[sv] = true
						c.List = append(c.List, jv.StrV(sv))
					}
				}
				if rapid.IntRange(0, 2).Draw(t, "numinst") > 0 {
					c.Inst = jv.NumV(rapid.SampledFrom(numberLike).Draw(t, "numinsttext"))
				} else {
					c.Inst = jv.EquivalentCopy(t, c.List[rapid.IntRange(0, n-1).Draw(t, "strinst")])
				}
				nt = true
				rec.Class("enum:long-all-strings")
				break
			}
			for i := 0; i < n; i++ {
				c.List = append(c.List, jv.Gen(vo).Draw(t, "listval"))
			}
			switch k := rapid.IntRange(0, 9).Draw(t, "instkind"); {
			case k <= 3 && n > 0:
				idx := rapid.IntRange(0, n-1).Draw(t, "matchidx")
				c.Inst = jv.EquivalentCopy(t, c.List[idx])
				nt = idx > 0 || c.Mode == "const"
			case k <= 6 && n > 0:
				c.Inst = jv.Mutate(t, c.List[rapid.IntRange(0, n-1).Draw(t, "nearidx")], o)
				nt = true
			default:
				c.Inst = jv.Gen(o).Draw(t, "inst")
			}
		}
		mk := func(v *jv.V) []int {
			l := &repr.Logger{In: repr.RapidChooser{T: t}}
			(&repr.Builder{C: l, O: c11Opts}).Build(v)
			return l.Log
		}
		if !c.FromDoc {
			for _, v := range c.List {
				c.ListCh = append(c.ListCh, mk(v))
			}
		}
		c.InstCh = mk(c.Inst)
		fl, herr := checkC12(c)
		if herr != "" {
			rec.Inconclusive("generator-self-check: " + herr)
			rec.Flush()
			t.Fatalf("harness self-check: %s", herr)
		}
		want := c.wantCanonical()
		if c.Mode == "unique" && !want {
			nt = true
		}
		rec.Class("mode:" + c.Mode)
		rec.ClassIf(want, "verdict:accept")
		rec.ClassIf(!want, "verdict:reject")
		rec.ClassIf(c.FromDoc, "schema-from-document")
		rec.ClassIf(!c.FromDoc, "schema-as-struct")
		rec.Eval(nt, ev.JSON(c), func() any { return c })
		if fl != nil {
			report(t, rec, c, fl)
		}
		rec.Case()
	})
}

func init() {
	replayers["C12"] = func(raw json.RawMessage) *failure {
		var c c12Case
		if err := json.Unmarshal(raw, &c); err != nil {
			return failf("REPLAY-HARNESS-ERROR: %v", err)
		}
		fixNil(&c.Inst)
		fixNils(c.List)
		fl, herr := checkC12(&c)
		if herr != "" {
			return failf("REPLAY-HARNESS-ERROR: %s", herr)
		}
		return fl
	}
}
