package props

// C20 — CloneSchemas yields an equal and fully independent schema tree.
//
// Generator: sstruct trees (marshalable, reference-free, valid regexps) populating every
// schema-bearing field incl. the draft-07 ones, nil and empty containers, depth <= 3; plus a
// sequence of mutations (assign a scalar, replace a child pointer, replace a slice/map field,
// insert into a schema map, overwrite a schema-slice element) applied to one of the two trees.
// Oracle: Marshal bytes equal; pointer sets disjoint (own walker); schema slices/maps are
// distinct containers; &Schema{AllOf:{orig, clone}} resolves; after mutating one tree the other
// is still deep-equal to a freshly built copy of the original.

import (
	"bytes"
	"encoding/json"
	"fmt"
	"reflect"
	"sort"
	"testing"

	"github.com/google/jsonschema-go/jsonschema"
	"pgregory.net/rapid"

	"verif/ev"
	"verif/sstruct"
)

type c20Mut struct {
	Node  int    `json:"node"` // index into the preorder list of Schema objects of the mutated tree
	Op    string `json:"op"`   // scalar | child | slice | map | mapinsert | sliceelem
	Field string `json:"field"`
}

type c20Case struct {
	Spec        *sstruct.Spec `json:"spec"`
	MutateClone bool          `json:"mutate_clone"`
	Muts        []c20Mut      `json:"mutations"`
	// Chain: names of subschema-bearing fields; a chain of that many nested subschemas (one per
	// name, cyclically up to ChainLen) is hung below the root, so that the tree is deep.
	// RefNodes: preorder indexes of Schema objects that additionally get "$ref": "#" (the clone of a
	// node that refers somewhere is as deep a copy as any other).
	RefNodes []int    `json:"ref_nodes,omitempty"`
	Chain    []string `json:"chain,omitempty"`
	ChainLen int      `json:"chain_len,omitempty"`
}

// appendChain hangs a chain of n nested subschemas below root, through the named fields in turn.
func appendChain(root *jsonschema.Schema, fields []string, n int) {
	cur := root
	for i := 0; i < n && len(fields) > 0; i++ {
		child := &jsonschema.Schema{Title: fmt.Sprintf("level %d", i)}
		name := fields[i%len(fields)]
		if i == 0 {
			name = "AllOf" // the generated root may hold anything already; allOf can always take one more
		}
		fv := reflect.ValueOf(cur).Elem().FieldByName(name)
		switch fv.Interface().(type) {
		case *jsonschema.Schema:
			fv.Set(reflect.ValueOf(child))
		case []*jsonschema.Schema:
			fv.Set(reflect.ValueOf(append(fv.Interface().([]*jsonschema.Schema), child)))
		case map[string]*jsonschema.Schema:
			if fv.IsNil() {
				fv.Set(reflect.ValueOf(map[string]*jsonschema.Schema{}))
			}
			fv.SetMapIndex(reflect.ValueOf("next"), reflect.ValueOf(child))
		default:
			return
		}
		cur = child
	}
}

// schemaList returns the Schema objects of a tree in a deterministic preorder.
func schemaList(s *jsonschema.Schema) []*jsonschema.Schema {
	var out []*jsonschema.Schema
	seen := map[*jsonschema.Schema]bool{}
	var walk func(x *jsonschema.Schema)
	walk = func(x *jsonschema.Schema) {
		if x == nil || seen[x] {
			return
		}
		seen[x] = true
		out = append(out, x)
		v := reflect.ValueOf(x).Elem()
		for i := 0; i < v.NumField(); i++ {
			switch f := v.Field(i).Interface().(type) {
			case *jsonschema.Schema:
				walk(f)
			case []*jsonschema.Schema:
				for _, e := range f {
					walk(e)
				}
			case map[string]*jsonschema.Schema:
				ks := make([]string, 0, len(f))
				for k := range f {
					ks = append(ks, k)
				}
				sort.Strings(ks)
				for _, k := range ks {
					walk(f[k])
				}
			}
		}
	}
	walk(s)
	return out
}

// schemaChildren lists the direct subschemas of s (all schema-bearing fields, by reflection).
func schemaChildren(s *jsonschema.Schema) []*jsonschema.Schema {
	var out []*jsonschema.Schema
	v := reflect.ValueOf(s).Elem()
	for i := 0; i < v.NumField(); i++ {
		switch f := v.Field(i).Interface().(type) {
		case *jsonschema.Schema:
			if f != nil {
				out = append(out, f)
			}
		case []*jsonschema.Schema:
			for _, e := range f {
				if e != nil {
					out = append(out, e)
				}
			}
		case map[string]*jsonschema.Schema:
			ks := make([]string, 0, len(f))
			for k := range f {
				ks = append(ks, k)
			}
			sort.Strings(ks)
			for _, k := range ks {
				if f[k] != nil {
					out = append(out, f[k])
				}
			}
		}
	}
	return out
}

func applyC20Mut(root *jsonschema.Schema, m c20Mut) {
	nodes := schemaList(root)
	if len(nodes) == 0 {
		return
	}
	n := nodes[m.Node%len(nodes)]
	v := reflect.ValueOf(n).Elem()
	fv := v.FieldByName(m.Field)
	if !fv.IsValid() {
		return
	}
	fresh := func() *jsonschema.Schema { return &jsonschema.Schema{Title: "inserted-by-mutation"} }
	switch m.Op {
	case "scalar":
		switch fv.Interface().(type) {
		case string:
			fv.SetString(fv.String() + "-mutated")
		case bool:
			fv.SetBool(!fv.Bool())
		case *float64:
			x := 424242.0
			fv.Set(reflect.ValueOf(&x))
		case *int:
			x := 4242
			fv.Set(reflect.ValueOf(&x))
		}
	case "child":
		if _, ok := fv.Interface().(*jsonschema.Schema); ok {
			fv.Set(reflect.ValueOf(fresh()))
		}
	case "slice":
		if _, ok := fv.Interface().([]*jsonschema.Schema); ok {
			fv.Set(reflect.ValueOf([]*jsonschema.Schema{fresh()}))
		}
	case "map":
		if _, ok := fv.Interface().(map[string]*jsonschema.Schema); ok {
			fv.Set(reflect.ValueOf(map[string]*jsonschema.Schema{"replaced": fresh()}))
		}
	case "mapinsert":
		if mp, ok := fv.Interface().(map[string]*jsonschema.Schema); ok && mp != nil {
			mp["inserted-key"] = fresh()
		}
	case "sliceelem":
		if sl, ok := fv.Interface().([]*jsonschema.Schema); ok && len(sl) > 0 {
			sl[0] = fresh()
		}
	}
}

func checkC20(c *c20Case, rec *ev.Recorder) *failure {
	return guard(func() *failure {
		if (*jsonschema.Schema)(nil).CloneSchemas() != nil {
			return failf("CloneSchemas on a nil receiver does not return nil")
		}
		orig := sstruct.Build(c.Spec)
		reference := sstruct.Build(c.Spec) // an independent, structurally equal tree
		appendChain(orig, c.Chain, c.ChainLen)
		appendChain(reference, c.Chain, c.ChainLen)
		for _, tree := range []*jsonschema.Schema{orig, reference} {
			l := schemaList(tree)
			for _, i := range c.RefNodes {
				if i < len(l) {
					l[i].Ref = "#"
				}
			}
		}
		clone := orig.CloneSchemas()
		if clone == nil {
			return failf("CloneSchemas returned nil for a non-nil schema")
		}
		b0, err0 := json.Marshal(orig)
		b1, err1 := json.Marshal(clone)
		if err0 != nil {
			return failf("HARNESS: generated schema does not marshal: %v", err0)
		}
		if err1 != nil || !bytes.Equal(b0, b1) {
			return failf("the clone marshals differently:\n orig:  %s\n clone: %s (%v)", b0, b1, err1)
		}
		po, pc := map[*jsonschema.Schema]int{}, map[*jsonschema.Schema]int{}
		schemaPointers(orig, po)
		schemaPointers(clone, pc)
		for p := range po {
			if pc[p] > 0 {
				return failf("original and clone share a Schema object (title %q, type %q)\n %s", p.Title, p.Type, b0)
			}
		}
		// schema containers must be distinct
		on, cn := schemaList(orig), schemaList(clone)
		if len(on) != len(cn) {
			return failf("original has %d Schema objects, clone %d", len(on), len(cn))
		}
		for i := range on {
			ov, cv := reflect.ValueOf(on[i]).Elem(), reflect.ValueOf(cn[i]).Elem()
			for f := 0; f < ov.NumField(); f++ {
				of, cf := ov.Field(f), cv.Field(f)
				switch of.Interface().(type) {
				case []*jsonschema.Schema:
					if of.Len() > 0 && of.Pointer() == cf.Pointer() {
						return failf("field %s: original and clone share the slice of subschemas", ov.Type().Field(f).Name)
					}
				case map[string]*jsonschema.Schema:
					if !of.IsNil() && of.Pointer() == cf.Pointer() {
						return failf("field %s: original and clone share the map of subschemas", ov.Type().Field(f).Name)
					}
				}
			}
		}
		parent := &jsonschema.Schema{AllOf: []*jsonschema.Schema{orig, clone}}
		if _, err := parent.Resolve(nil); err != nil {
			return failf("a parent holding the original and its clone does not resolve: %v\n %s", err, b0)
		}
		// mutation independence
		mutated, other, otherName := clone, orig, "original"
		if !c.MutateClone {
			mutated, other, otherName = orig, clone, "clone"
		}
		_ = reference
		for _, m := range c.Muts {
			applyC20Mut(mutated, m)
			// the property speaks of marshaled form and shared Schema objects: the untouched tree
			// must still marshal to the original bytes after every single assignment
			if bo, err := json.Marshal(other); err != nil || !bytes.Equal(bo, b0) {
				return failf("after mutation %+v of the other tree, the %s changed: it now marshals to %s (was %s)", m, otherName, bo, b0)
			}
		}
		b2, err := json.Marshal(other)
		if err != nil || !bytes.Equal(b2, b0) {
			return failf("after mutating the other tree the %s marshals differently:\n before: %s\n after:  %s", otherName, b0, b2)
		}
		return nil
	})
}

func TestC20(t *testing.T) {
	rec := ev.For("C20")
	defer finish(rec)
	schemaFields := sstruct.SchemaFields()
	rec.Describe("case = (Schema tree from the reflection-driven struct generator: every field populated in every way its type allows incl. all "+fmt.Sprint(len(schemaFields))+" subschema-bearing fields (draft-07 ones included), nil and empty containers, depth<=3 (two levels of full nodes plus leaves), reference-free; 1-6 mutations — assign a scalar, replace a child pointer, replace a schema slice/map, insert into a schema map, overwrite a schema-slice element — applied to the clone or to the original). Oracle: equal Marshal bytes and DeepEqual; disjoint Schema pointer sets; distinct schema containers; parent{AllOf:[orig,clone]} resolves; the unmutated tree stays DeepEqual to an independently built reference after every mutation. Non-trivial: >=3 distinct subschema-bearing fields populated. Distinct = distinct (spec, mutations).",
		"slices and maps of non-schema values are only ever replaced, never mutated in place (sharing them is documented)")
	scalarFields := []string{"Title", "Description", "Type", "Pattern", "Format", "Deprecated", "UniqueItems", "Minimum", "MinLength", "MaxItems", "Comment"}
	rapid.Check(t, func(t *rapid.T) {
		c := &c20Case{MutateClone: rapid.Bool().Draw(t, "mutateclone")}
		c.Spec = sstruct.Gen(t, sstruct.Opts{MaxDepth: rapid.IntRange(1, 2).Draw(t, "depth"), NoRefs: true, Density: rapid.IntRange(2, 5).Draw(t, "density")})
		if rapid.IntRange(0, 2).Draw(t, "refnodes") == 0 {
			for i, k := 0, rapid.IntRange(1, 4).Draw(t, "nrefnodes"); i < k; i++ {
				c.RefNodes = append(c.RefNodes, rapid.IntRange(0, 30).Draw(t, "refnode"))
			}
			rec.Class("tree:nodes-with-$ref")
		}
		if rapid.IntRange(0, 9).Draw(t, "deepchain") == 0 {
			// a legitimate tree that is a few hundred subschemas deep
			c.ChainLen = rapid.SampledFrom([]int{40, 101, 130, 257, 400}).Draw(t, "chainlen")
			for i, k := 0, rapid.IntRange(1, 3).Draw(t, "chainfields"); i < k; i++ {
				c.Chain = append(c.Chain, rapid.SampledFrom([]string{"Items", "Not", "Properties", "AllOf", "AdditionalProperties", "Contains", "Defs", "Then", "PropertyNames"}).Draw(t, "chainfield"))
			}
			rec.Class("tree:deep-chain")
		}
		for i, n := 0, rapid.IntRange(1, 6).Draw(t, "nmut"); i < n; i++ {
			m := c20Mut{Node: rapid.IntRange(0, 40).Draw(t, "node")}
			switch rapid.IntRange(0, 5).Draw(t, "op") {
			case 0:
				m.Op, m.Field = "scalar", rapid.SampledFrom(scalarFields).Draw(t, "sf")
			default:
				m.Field = rapid.SampledFrom(schemaFields).Draw(t, "schemafield")
				m.Op = rapid.SampledFrom([]string{"child", "slice", "map", "mapinsert", "sliceelem", "mapinsert", "sliceelem"}).Draw(t, "mop")
			}
			c.Muts = append(c.Muts, m)
		}
		populated := map[string]bool{}
		c.Spec.Walk(func(n *sstruct.Spec) {
			for _, f := range schemaFields {
				if n.Fields[f] != nil {
					populated[f] = true
					rec.Class("field:" + f)
				}
			}
		})
		rec.Eval(len(populated) >= 3, ev.JSON(c), func() any { return c })
		if fl := checkC20(c, rec); fl != nil {
			if isHarnessFailure(fl) {
				rec.Inconclusive(fl.Msg)
				rec.Flush()
				t.Fatalf("%s", fl.Msg)
			}
			report(t, rec, c, fl)
		}
		rec.Case()
	})
}

func init() {
	replayers["C20"] = func(raw json.RawMessage) *failure {
		var c c20Case
		if err := json.Unmarshal(raw, &c); err != nil {
			return failf("REPLAY-HARNESS-ERROR: %v", err)
		}
		return checkC20(&c, nil)
	}
}
