package props

// C05 — A schema survives a JSON round trip with its meaning intact.
//
// Family "struct": a jsonschema.Schema value (sstruct) s -> b1 -> s' -> b2: b1 == b2 bytewise
// when no PropertyOrder is set (equal as JSON values otherwise); s and s' resolve alike and
// give identical verdict vectors on an instance pool.
// Family "doc": a schema document (sgen, both drafts, plus unknown keywords) doc -> s -> b:
// b equals doc as a JSON value after applying exactly the documented normalisations to doc,
// and Unmarshal(b) gives the same verdicts as Unmarshal(doc) and as the reference evaluator.

import (
	"bytes"
	"encoding/json"
	"reflect"
	"strings"
	"testing"

	"github.com/google/jsonschema-go/jsonschema"
	"pgregory.net/rapid"

	"verif/ev"
	"verif/jv"
	"verif/refmodel"
	"verif/sgen"
	"verif/sstruct"
)

// spellingSeed: the document is also unmarshaled from an equivalent spelling (escapes for
// roughly every third character of strings and keys, extra whitespace); the two Schemas must
// marshal identically.
type c05Case struct {
	SpellSeed int           `json:"spell_seed,omitempty"`
	Family    string        `json:"family"` // struct | doc
	Spec      *sstruct.Spec `json:"spec,omitempty"`
	Doc       *jv.V         `json:"doc,omitempty"`
	Draft7    bool          `json:"draft7,omitempty"`
	Instances []*jv.V       `json:"instances"`
}

var (
	stringKW   = map[string]bool{"$id": true, "$schema": true, "$ref": true, "$comment": true, "$anchor": true, "$dynamicAnchor": true, "$dynamicRef": true, "title": true, "description": true, "pattern": true, "contentEncoding": true, "contentMediaType": true, "format": true}
	boolKW     = map[string]bool{"deprecated": true, "readOnly": true, "writeOnly": true, "uniqueItems": true}
	nullKeepKW = map[string]bool{"default": true, "const": true}
	// keywords whose empty array/object value is dropped by Marshal (omitempty) without a change of meaning
	emptyDropKW = map[string]bool{"allOf": true, "required": true, "$defs": true, "definitions": true, "dependencies": true, "dependentRequired": true,
		"patternProperties": true, "examples": true, "prefixItems": true, "dependentSchemas": true, "$vocabulary": true}
	knownKW = map[string]bool{}
)

func init() {
	for _, k := range standardKeywords {
		knownKW[k] = true
	}
}

// normaliseDoc applies the documented normalisations to a schema document: boolean forms
// ({} for true, {"not":{}} for false), removal of zero-valued keywords ("" / false / null /
// empty containers where emptiness means absence). Numbers are compared as rationals by the
// canonical form, which covers "integral floats".
func normaliseDoc(v *jv.V) *jv.V {
	if v.K == jv.Bool {
		if v.B {
			return jv.ObjV()
		}
		return jv.ObjV(jv.Member{K: "not", V: jv.ObjV()})
	}
	if v.K != jv.Obj {
		return v.Clone()
	}
	out := jv.ObjV()
	for _, m := range v.O {
		val := m.V
		if knownKW[m.K] {
			switch {
			case stringKW[m.K] && val.K == jv.Str && val.S == "":
				continue
			case boolKW[m.K] && val.K == jv.Bool && !val.B:
				continue
			case val.K == jv.Null && !nullKeepKW[m.K]:
				continue
			case emptyDropKW[m.K] && ((val.K == jv.Arr && len(val.A) == 0) || (val.K == jv.Obj && len(val.O) == 0)):
				continue
			}
		}
		switch m.K {
		case "properties", "patternProperties", "$defs", "definitions", "dependentSchemas":
			if val.K == jv.Obj {
				o := jv.ObjV()
				for _, mm := range val.O {
					o.Set(mm.K, normaliseDoc(mm.V))
				}
				out.Set(m.K, o)
				continue
			}
		case "dependencies":
			if val.K == jv.Obj {
				o := jv.ObjV()
				for _, mm := range val.O {
					if mm.V.K == jv.Arr {
						o.Set(mm.K, mm.V.Clone())
					} else {
						o.Set(mm.K, normaliseDoc(mm.V))
					}
				}
				out.Set(m.K, o)
				continue
			}
		case "allOf", "anyOf", "oneOf", "prefixItems":
			if val.K == jv.Arr {
				a := &jv.V{K: jv.Arr, A: []*jv.V{}}
				for _, e := range val.A {
					a.A = append(a.A, normaliseDoc(e))
				}
				out.Set(m.K, a)
				continue
			}
		case "items":
			if val.K == jv.Arr {
				a := &jv.V{K: jv.Arr, A: []*jv.V{}}
				for _, e := range val.A {
					a.A = append(a.A, normaliseDoc(e))
				}
				out.Set(m.K, a)
			} else {
				out.Set(m.K, normaliseDoc(val))
			}
			continue
		case "additionalProperties", "propertyNames", "unevaluatedProperties", "unevaluatedItems", "contains", "not", "if", "then", "else", "additionalItems", "contentSchema":
			out.Set(m.K, normaliseDoc(val))
			continue
		}
		out.Set(m.K, val.Clone())
	}
	return out
}

func verdictVector(rs *jsonschema.Resolved, insts []*jv.V) []bool {
	out := make([]bool, len(insts))
	for i, inst := range insts {
		out[i] = rs.Validate(inst.ToAny()) == nil
	}
	return out
}

func specHasOrder(sp *sstruct.Spec) bool {
	has := false
	sp.Walk(func(n *sstruct.Spec) {
		if f := n.Fields["PropertyOrder"]; f != nil && len(f.Strs) > 0 {
			has = true
		}
	})
	return has
}

func checkC05(c *c05Case, rec *ev.Recorder) *failure {
	if c.Family == "doc" {
		return checkC05Doc(c, rec)
	}
	return guard(func() *failure {
		s := sstruct.Build(c.Spec)
		b1, err := json.Marshal(s)
		if err != nil {
			return failf("Marshal fails on a Schema value that satisfies the documented rules: %v", err)
		}
		var s2 jsonschema.Schema
		if err := json.Unmarshal(b1, &s2); err != nil {
			return failf("Unmarshal rejects Marshal's own output: %v\n%s", err, b1)
		}
		b2, err := json.Marshal(&s2)
		if err != nil {
			return failf("Marshal fails on the round-tripped schema: %v\n%s", err, b1)
		}
		if !specHasOrder(c.Spec) {
			if !bytes.Equal(b1, b2) {
				return failf("second marshal differs bytewise (no PropertyOrder set):\n b1: %s\n b2: %s", b1, b2)
			}
		} else {
			v1, e1 := jv.Parse(string(b1))
			v2, e2 := jv.Parse(string(b2))
			if e1 != nil || e2 != nil || !reflect.DeepEqual(v1.ToAny(), v2.ToAny()) {
				return failf("second marshal differs as a JSON value:\n b1: %s\n b2: %s", b1, b2)
			}
		}
		rs1, err1 := s.Resolve(nil)
		rs2, err2 := s2.Resolve(nil)
		if (err1 == nil) != (err2 == nil) {
			return failf("Resolve behaves differently after the round trip: before=%v after=%v\n b1: %s", err1, err2, b1)
		}
		nt := len(c.Spec.Fields) >= 3
		if err1 == nil {
			vv1, vv2 := verdictVector(rs1, c.Instances), verdictVector(rs2, c.Instances)
			for i := range vv1 {
				if rec != nil {
					rec.ClassIf(vv1[i], "verdict:valid")
					rec.ClassIf(!vv1[i], "verdict:invalid")
					rec.Eval(nt, []byte(string(b1)+"\x00"+c.Instances[i].Canon()+"\x00"+mustJSON(c.Spec)), func() any {
						return map[string]any{"family": "struct", "marshaled": json.RawMessage(b1), "instance": c.Instances[i], "valid": vv1[i]}
					})
				}
				if vv1[i] != vv2[i] {
					return failf("the round-tripped schema gives a different verdict: before accept=%v, after accept=%v\n marshaled: %s\n instance: %s", vv1[i], vv2[i], b1, c.Instances[i].JSON())
				}
			}
		} else if rec != nil {
			rec.Class("struct:unresolvable-both-sides")
			rec.Eval(nt, []byte(string(b1)+mustJSON(c.Spec)), func() any { return map[string]any{"family": "struct", "marshaled": json.RawMessage(b1)} })
		}
		return nil
	})
}

func checkC05Doc(c *c05Case, rec *ev.Recorder) *failure {
	doc := c.Doc.JSON()
	d := refmodel.D2020
	if c.Draft7 {
		d = refmodel.D7
	}
	return guard(func() *failure {
		var s jsonschema.Schema
		if err := json.Unmarshal([]byte(doc), &s); err != nil {
			return failf("Unmarshal rejects a well-formed schema document: %v\n%s", err, doc)
		}
		b, err := json.Marshal(&s)
		if err != nil {
			return failf("Marshal fails on an unmarshaled document: %v\n%s", err, doc)
		}
		back, err := jv.Parse(string(b))
		if err != nil {
			return failf("Marshal output is not JSON: %v\n%s", err, b)
		}
		if c.SpellSeed > 0 {
			// the same JSON document in another spelling must unmarshal to the same schema
			n := c.SpellSeed
			spelled := c.Doc.JSONSpelled(func(s string) string {
				return jv.EscapeSpelling(s, func() bool { n = n*1103515245 + 12345; return (n>>16)%3 == 0 })
			})
			if c.SpellSeed%4 == 1 {
				// ... and with member names repeated inside the maps of subschemas: encoding/json keeps
				// the last occurrence, so the earlier ones (arbitrary other schemas) mean nothing
				var sb strings.Builder
				m := uint32(c.SpellSeed)
				writeWithShadowedMembers(c.Doc, &sb, false, &m)
				spelled = sb.String()
			}
			var sp jsonschema.Schema
			if err := json.Unmarshal([]byte(spelled), &sp); err != nil {
				return failf("Unmarshal rejects an equivalent spelling of an accepted document: %v\n%s", err, spelled)
			}
			bs, err := json.Marshal(&sp)
			if err != nil {
				return failf("Marshal fails after unmarshaling an equivalent spelling: %v\n%s", err, spelled)
			}
			v1, e1 := jv.Parse(string(b))
			v2, e2 := jv.Parse(string(bs))
			if e1 != nil || e2 != nil || !jv.Equal(v1, v2) {
				return failf("two spellings of the same JSON document unmarshal to different schemas\n plain:   %s\n spelled: %s\n marshal(plain):   %s\n marshal(spelled): %s", doc, spelled, b, bs)
			}
		}
		want := normaliseDoc(c.Doc)
		// numbers are compared after rounding to float64: encoding/json re-spells every number it
		// holds as a float64 in its shortest round-tripping form (-2^63 as -9223372036854776000)
		if got := normaliseDoc(back); !jv.Equal(got, want) && !reflect.DeepEqual(got.ToAny(), want.ToAny()) {
			return failf("Marshal(Unmarshal(doc)) is not doc up to the documented normalisations\n doc:        %s\n marshaled:  %s\n normalised doc:       %s\n normalised marshaled: %s", doc, b, want.JSON(), got.JSON())
		}
		var s2 jsonschema.Schema
		if err := json.Unmarshal(b, &s2); err != nil {
			return failf("Unmarshal rejects Marshal's own output: %v\n%s", err, b)
		}
		rs1, err := s.Resolve(nil)
		if err != nil {
			return failf("Resolve rejects a well-formed schema document: %v\n%s", err, doc)
		}
		rs2, err := s2.Resolve(nil)
		if err != nil {
			return failf("Resolve rejects the re-marshaled document: %v\n%s", err, b)
		}
		m, merr := refmodel.New(&refmodel.Universe{Root: c.Doc}, d)
		if merr != nil {
			return failf("HARNESS: model cannot index: %v", merr)
		}
		vv1, vv2 := verdictVector(rs1, c.Instances), verdictVector(rs2, c.Instances)
		nt := c.Doc.K == jv.Obj && len(c.Doc.O) >= 3
		for i, inst := range c.Instances {
			want, err := m.Validate(inst)
			if err != nil {
				return failf("HARNESS: model error: %v", err)
			}
			if rec != nil {
				rec.ClassIf(want, "verdict:valid")
				rec.ClassIf(!want, "verdict:invalid")
				rec.Eval(nt, []byte(doc+"\x00"+inst.Canon()), func() any {
					return map[string]any{"family": "doc", "doc": c.Doc, "marshaled": json.RawMessage(b), "instance": inst, "valid": want}
				})
			}
			if vv1[i] != vv2[i] || vv1[i] != want {
				return failf("verdicts differ: Unmarshal(doc) accept=%v, Unmarshal(Marshal(..)) accept=%v, reference evaluator on doc valid=%v\n doc: %s\n marshaled: %s\n instance: %s", vv1[i], vv2[i], want, doc, b, inst.JSON())
			}
		}
		return nil
	})
}

func TestC05(t *testing.T) {
	rec := ev.For("C05")
	defer finish(rec)
	if n, mm, err := runModelOnSuite(); err != nil || len(mm) > 0 || n < 1500 {
		rec.Inconclusive("model-invalid: reference model does not reproduce the official suite")
		t.Fatalf("reference model invalid: %v %v", err, mm)
	}
	rec.Describe("two families. struct: a jsonschema.Schema value whose exported fields (table obtained by reflection) are populated in every way their Go types allow — nil, empty non-nil, pointer-to-nil const, nested to depth 2 — under the documented exclusivity rules (Type xor Types, Items xor ItemsArray, Defs xor Definitions, disjoint dependency maps, duplicate-free PropertyOrder, Extra keys disjoint from keywords, incl. case variants of keywords); oracle: Marshal/Unmarshal/Marshal bytes (JSON value when a PropertyOrder is set), Resolve symmetric, identical verdict vectors on 4 instances. doc: schema document of either draft from the C01/C02 grammar plus unknown keywords; oracle: Marshal(Unmarshal(doc)) == doc as a JSON value after the documented normalisations, and identical verdicts for doc, its re-marshaled form and the reference evaluator. Non-trivial: >=3 populated fields / keywords at the root. Distinct = distinct (schema, instance).",
		"Vocabulary is left nil in struct cases (it is only resolvable beside the 2020-12 $schema value); $schema below the root and references are not set in struct cases (C03/C06/C17 cover references)",
		"float fields are finite, integer fields lie within int32")
	rapid.Check(t, watched("C05", propC05(rec)))
}

// writeWithShadowedMembers writes v as JSON text; inside the value of a keyword that maps names to
// subschemas, a third of the members are preceded by a member of the same name holding some other
// schema (a duplicate name, of which encoding/json keeps the last).
func writeWithShadowedMembers(v *jv.V, sb *strings.Builder, inSchemaMap bool, n *uint32) {
	switch v.K {
	case jv.Arr:
		sb.WriteByte('[')
		for i, e := range v.A {
			if i > 0 {
				sb.WriteByte(',')
			}
			writeWithShadowedMembers(e, sb, false, n)
		}
		sb.WriteByte(']')
	case jv.Obj:
		sb.WriteByte('{')
		for i, m := range v.O {
			if i > 0 {
				sb.WriteByte(',')
			}
			k, _ := json.Marshal(m.K)
			if inSchemaMap {
				*n = *n*1103515245 + 12345
				if (*n>>16)%3 == 0 {
					sb.Write(k)
					sb.WriteString(`:{"type":"null","title":"shadowed","minLength":7},`)
				}
			}
			sb.Write(k)
			sb.WriteByte(':')
			isMap := false
			switch m.K {
			case "properties", "patternProperties", "$defs", "definitions", "dependentSchemas":
				isMap = !inSchemaMap && m.V.K == jv.Obj
			}
			writeWithShadowedMembers(m.V, sb, isMap, n)
		}
		sb.WriteByte('}')
	default:
		sb.WriteString(v.JSON())
	}
}

func init() {
	replayers["C05"] = func(raw json.RawMessage) *failure {
		var c c05Case
		if err := json.Unmarshal(raw, &c); err != nil {
			return failf("REPLAY-HARNESS-ERROR: %v", err)
		}
		fixNils(c.Instances)
		fl := checkC05(&c, nil)
		if isHarnessFailure(fl) {
			return failf("REPLAY-HARNESS-ERROR: %s", fl.Msg)
		}
		return fl
	}
}

// propC05 is the property body, shared by TestC05 (rapid) and FuzzC05 (native fuzzing over
// rapid's bit stream).
func propC05(rec *ev.Recorder) func(t *rapid.T) {
	return func(t *rapid.T) {
		c := &c05Case{}
		if rapid.IntRange(0, 1).Draw(t, "family") == 0 {
			c.Family = "struct"
			c.Spec = sstruct.Gen(t, sstruct.Opts{MaxDepth: rapid.IntRange(0, 2).Draw(t, "depth"), Density: rapid.IntRange(1, 5).Draw(t, "density")})
			if rapid.IntRange(0, 3).Draw(t, "d7root") == 0 {
				c.Spec.Fields["Schema"] = &sstruct.Field{Str: refmodel.URI7}
				c.Draft7 = true
			}
			// instance pool derived from the schema's own marshaled form + free draws
			var pool *jv.V
			if b, err := json.Marshal(sstruct.Build(c.Spec)); err == nil {
				pool, _ = jv.Parse(string(b))
			}
			if pool == nil {
				pool = jv.ObjV()
			}
			c.Instances = sgen.Instances(t, pool, 4)
			for _, name := range sstruct.FieldNames() {
				if f := c.Spec.Fields[name]; f != nil {
					rec.Class("field:" + name)
					rec.ClassIf(f.Empty, "empty-non-nil:"+name)
				}
			}
		} else {
			c.Family = "doc"
			c.Draft7 = rapid.IntRange(0, 2).Draw(t, "d7") == 0
			d := refmodel.D2020
			if c.Draft7 {
				d = refmodel.D7
			}
			c.Doc = sgen.Draw(t, sgen.Opts{Draft: d, MaxDepth: 3})
			c.Instances = sgen.Instances(t, c.Doc, 4)
			stripUnsafeMultipleOf(c.Doc, c.Instances)
			if rapid.Bool().Draw(t, "decorate") {
				c.Doc, _ = decorate(t, c.Doc, c.Draft7)
			}
			if rapid.Bool().Draw(t, "respell") {
				c.SpellSeed = rapid.IntRange(1, 1<<20).Draw(t, "spellseed")
			}
		}
		rec.Class("family:" + c.Family)
		fl := checkC05(c, rec)
		if isHarnessFailure(fl) {
			rec.Inconclusive("generator-or-model-error: " + fl.Msg)
			rec.Flush()
			t.Fatalf("%s", fl.Msg)
		}
		if fl != nil {
			report(t, rec, c, fl)
		}
		rec.Case()
	}
}
