package props

// Native (coverage-guided) fuzz targets, used by the thorough tier only.
//
// FuzzC01 / C02 / C03 / C05 / C06 / C07 / C10 / C15 / C17 / C18 feed the fuzzer's bytes to rapid as its bit stream
// (rapid.MakeFuzz), so the structured generators and the oracles of the rapid checks are reused
// and coverage guides the choice sequence. FuzzBytes is a plain byte-level target for the
// entry points that take bytes (Unmarshal), with the round-trip and no-panic oracles inside.

import (
	"bytes"
	"encoding/json"
	"fmt"
	"os"
	"path/filepath"
	"strings"
	"testing"

	"github.com/google/jsonschema-go/jsonschema"
	"pgregory.net/rapid"

	"verif/ev"
)

// harnessSafe keeps a panic of the harness itself (a generator handed an impossible range, an
// oracle indexing out of bounds) from being taken for a crash of the code under test: library
// calls run under guard(), which turns their panics into recorded failures, so whatever still
// propagates here is either rapid's own control flow (passed on) or a harness defect. The latter
// is written to $VERIF_HARNESS_PANIC, which makes the driver report INCONCLUSIVE, and the input is
// dropped.
func harnessSafe(prop func(*rapid.T)) func(*rapid.T) {
	return func(t *rapid.T) {
		defer func() {
			r := recover()
			if r == nil {
				return
			}
			switch fmt.Sprintf("%T", r) {
			case "rapid.stopTest", "rapid.invalidData":
				panic(r)
			}
			if p := os.Getenv("VERIF_HARNESS_PANIC"); p != "" {
				if f, err := os.OpenFile(p, os.O_APPEND|os.O_CREATE|os.O_WRONLY, 0o644); err == nil {
					fmt.Fprintf(f, "%v\n", r)
					f.Close()
				}
			}
		}()
		prop(t)
	}
}

func seedBitStreams(f *testing.F) {
	f.Add([]byte{})
	f.Add(bytes.Repeat([]byte{0}, 64))
	f.Add(bytes.Repeat([]byte{0xff}, 256))
	f.Add([]byte("0123456789abcdefghijklmnopqrstuvwxyz0123456789abcdefghijklmnopqrstuvwxyz"))
	b := make([]byte, 1024)
	for i := range b {
		b[i] = byte(i*131 + 7)
	}
	f.Add(b)
}

func FuzzC01(f *testing.F) {
	seedBitStreams(f)
	f.Fuzz(rapid.MakeFuzz(harnessSafe(propC01(ev.For("C01")))))
}

func FuzzC05(f *testing.F) {
	seedBitStreams(f)
	f.Fuzz(rapid.MakeFuzz(harnessSafe(propC05(ev.For("C05")))))
}

func FuzzC10(f *testing.F) {
	seedBitStreams(f)
	f.Fuzz(rapid.MakeFuzz(harnessSafe(propC10(ev.For("C10")))))
}

func FuzzC02(f *testing.F) {
	seedBitStreams(f)
	f.Fuzz(rapid.MakeFuzz(harnessSafe(propC02(ev.For("C02")))))
}

func FuzzC03(f *testing.F) {
	seedBitStreams(f)
	f.Fuzz(rapid.MakeFuzz(harnessSafe(propC03(ev.For("C03")))))
}

func FuzzC06(f *testing.F) {
	seedBitStreams(f)
	f.Fuzz(rapid.MakeFuzz(harnessSafe(propC06(ev.For("C06")))))
}

func FuzzC07(f *testing.F) {
	seedBitStreams(f)
	f.Fuzz(rapid.MakeFuzz(harnessSafe(propC07(ev.For("C07")))))
}

func FuzzC15(f *testing.F) {
	seedBitStreams(f)
	f.Fuzz(rapid.MakeFuzz(harnessSafe(propC15(ev.For("C15")))))
}

func FuzzC17(f *testing.F) {
	seedBitStreams(f)
	f.Fuzz(rapid.MakeFuzz(harnessSafe(propC17(ev.For("C17")))))
}

func FuzzC18(f *testing.F) {
	seedBitStreams(f)
	f.Fuzz(rapid.MakeFuzz(harnessSafe(propC18(ev.For("C18")))))
}

// FuzzBytes: arbitrary bytes into Unmarshal. Oracles: no panic anywhere; if Unmarshal accepts,
// Marshal succeeds, its output is accepted again and marshals to the same bytes (C05); Resolve
// returns; on success (and no in-place reference cycle) Validate/ApplyDefaults return (C10).
func FuzzBytes(f *testing.F) {
	for _, s := range hostileSnippets {
		f.Add([]byte(s))
	}
	root := filepath.Join(repoDir(), "jsonschema", "testdata")
	_ = filepath.Walk(root, func(p string, info os.FileInfo, err error) error {
		if err != nil || info.IsDir() || !strings.HasSuffix(p, ".json") {
			return nil
		}
		b, err := os.ReadFile(p)
		if err != nil {
			return nil
		}
		var groups []struct {
			Schema json.RawMessage `json:"schema"`
		}
		if json.Unmarshal(b, &groups) == nil {
			for i, g := range groups {
				if i < 6 && len(g.Schema) > 0 && len(g.Schema) < 2000 {
					f.Add([]byte(g.Schema))
				}
			}
		} else if len(b) < 4000 {
			f.Add(b)
		}
		return nil
	})
	rec := ev.For("C10")
	f.Fuzz(func(t *testing.T, data []byte) {
		if len(data) > 1<<16 {
			return
		}
		c := &c10Case{Target: "unmarshal", Bytes: string(data)}
		ev.Journal("C10", c)
		fl := guard(func() *failure {
			var s jsonschema.Schema
			if err := json.Unmarshal(data, &s); err != nil {
				return nil
			}
			b1, err := json.Marshal(&s)
			if err != nil {
				// Marshal may refuse what Unmarshal produced only for documented reasons (Extra key clash is impossible here)
				return failf("C05: Marshal fails on a schema that Unmarshal produced: %v", err)
			}
			var s2 jsonschema.Schema
			if err := json.Unmarshal(b1, &s2); err != nil {
				return failf("C05: Unmarshal rejects Marshal's own output %s: %v", b1, err)
			}
			b2, err := json.Marshal(&s2)
			if err != nil || !bytes.Equal(b1, b2) {
				return failf("C05: re-marshaling changes the bytes:\n %s\n %s (%v)", b1, b2, err)
			}
			return nil
		})
		if fl == nil {
			fl = checkC10(c, nil)
		}
		if fl != nil {
			rec.Fail(c, fl.Msg)
			t.Fatalf("%s\ninput: %q", fl.Msg, data)
		}
	})
}
