package props

// Native (coverage-guided) fuzz targets, used by the thorough tier only.
//
// FuzzC01 / C02 / C03 / C05 / C06 / C07 / C10 / C15 / C17 / C18 feed the fuzzer's bytes to rapid as its bit stream
// (rapid.MakeFuzz), so the structured generators and the oracles of the rapid checks are reused
// and coverage guides the choice sequence. FuzzBytes is a plain byte-level target for the
// entry points that take bytes (Unmarshal), with the round-trip and no-panic oracles inside.

import (
	"bytes"
	"encoding/json"
	"os"
	"path/filepath"
	"strings"
	"testing"

	"github.com/google/jsonschema-go/jsonschema"
	"pgregory.net/rapid"

	"verif/ev"
)

func seedBitStreams(f *testing.F) {
	f.Add([]byte{})
	f.Add(bytes.Repeat([]byte{0}, 64))
	f.Add(bytes.Repeat([]byte{0xff}, 256))
	f.Add([]byte("0123456789abcdefghijklmnopqrstuvwxyz0123456789abcdefghijklmnopqrstuvwxyz"))
	b := make([]byte, 1024)
	for i := range b {
		b[i] = byte(i*131 + 7)
	}
	f.Add(b)
}

func FuzzC01(f *testing.F) {
	seedBitStreams(f)
	f.Fuzz(rapid.MakeFuzz(propC01(ev.For("C01"))))
}

func FuzzC05(f *testing.F) {
	seedBitStreams(f)
	f.Fuzz(rapid.MakeFuzz(propC05(ev.For("C05"))))
}

func FuzzC10(f *testing.F) {
	seedBitStreams(f)
	f.Fuzz(rapid.MakeFuzz(propC10(ev.For("C10"))))
}

func FuzzC02(f *testing.F) {
	seedBitStreams(f)
	f.Fuzz(rapid.MakeFuzz(propC02(ev.For("C02"))))
}

func FuzzC03(f *testing.F) {
	seedBitStreams(f)
	f.Fuzz(rapid.MakeFuzz(propC03(ev.For("C03"))))
}

func FuzzC06(f *testing.F) {
	seedBitStreams(f)
	f.Fuzz(rapid.MakeFuzz(propC06(ev.For("C06"))))
}

func FuzzC07(f *testing.F) {
	seedBitStreams(f)
	f.Fuzz(rapid.MakeFuzz(propC07(ev.For("C07"))))
}

func FuzzC15(f *testing.F) {
	seedBitStreams(f)
	f.Fuzz(rapid.MakeFuzz(propC15(ev.For("C15"))))
}

func FuzzC17(f *testing.F) {
	seedBitStreams(f)
	f.Fuzz(rapid.MakeFuzz(propC17(ev.For("C17"))))
}

func FuzzC18(f *testing.F) {
	seedBitStreams(f)
	f.Fuzz(rapid.MakeFuzz(propC18(ev.For("C18"))))
}

// FuzzBytes: arbitrary bytes into Unmarshal. Oracles: no panic anywhere; if Unmarshal accepts,
// Marshal succeeds, its output is accepted again and marshals to the same bytes (C05); Resolve
// returns; on success (and no in-place reference cycle) Validate/ApplyDefaults return (C10).
func FuzzBytes(f *testing.F) {
	for _, s := range hostileSnippets {
		f.Add([]byte(s))
	}
	root := filepath.Join(repoDir(), "jsonschema", "testdata")
	_ = filepath.Walk(root, func(p string, info os.FileInfo, err error) error {
		if err != nil || info.IsDir() || !strings.HasSuffix(p, ".json") {
			return nil
		}
		b, err := os.ReadFile(p)
		if err != nil {
			return nil
		}
		var groups []struct {
			Schema json.RawMessage `json:"schema"`
		}
		if json.Unmarshal(b, &groups) == nil {
			for i, g := range groups {
				if i < 6 && len(g.Schema) > 0 && len(g.Schema) < 2000 {
					f.Add([]byte(g.Schema))
				}
			}
		} else if len(b) < 4000 {
			f.Add(b)
		}
		return nil
	})
	rec := ev.For("C10")
	f.Fuzz(func(t *testing.T, data []byte) {
		if len(data) > 1<<16 {
			return
		}
		c := &c10Case{Target: "unmarshal", Bytes: string(data)}
		ev.Journal("C10", c)
		fl := guard(func() *failure {
			var s jsonschema.Schema
			if err := json.Unmarshal(data, &s); err != nil {
				return nil
			}
			b1, err := json.Marshal(&s)
			if err != nil {
				// Marshal may refuse what Unmarshal produced only for documented reasons (Extra key clash is impossible here)
				return failf("C05: Marshal fails on a schema that Unmarshal produced: %v", err)
			}
			var s2 jsonschema.Schema
			if err := json.Unmarshal(b1, &s2); err != nil {
				return failf("C05: Unmarshal rejects Marshal's own output %s: %v", b1, err)
			}
			b2, err := json.Marshal(&s2)
			if err != nil || !bytes.Equal(b1, b2) {
				return failf("C05: re-marshaling changes the bytes:\n %s\n %s (%v)", b1, b2, err)
			}
			return nil
		})
		if fl == nil {
			fl = checkC10(c, nil)
		}
		if fl != nil {
			rec.Fail(c, fl.Msg)
			t.Fatalf("%s\ninput: %q", fl.Msg, data)
		}
	})
}
