package props

// C07 — unevaluated* see exactly what adjacent and in-place keywords evaluated.
//
// Generator: a focused lens — trees of in-place applicators (allOf/anyOf/oneOf/if-then-else/
// dependentSchemas/$ref/$dynamicRef/not, depth <= 4) whose leaves are properties/
// patternProperties/additionalProperties (resp. prefixItems/items/contains) over a pool of 4
// names (resp. 2 item values), with deliberately failing branches, cousins, nested
// unevaluated*, and unevaluated* in {false, type schema, true} at the root or inside a branch.
// Instances: every subset of the name pool (16 objects), every array over the item pool up
// to length 4 (31 arrays) — enumerated exhaustively per schema.
// Oracle: refmodel's explicit evaluated sets.

import (
	"encoding/json"
	"errors"
	"fmt"
	"net/url"
	"testing"

	"github.com/google/jsonschema-go/jsonschema"
	"pgregory.net/rapid"

	"verif/ev"
	"verif/jv"
	"verif/refmodel"
)

type c07Case struct {
	Mode   string `json:"mode"` // object | array
	Schema *jv.V  `json:"schema"`
	// Long: (array mode) also evaluate a few arrays of 63-130 items, whose interesting positions are
	// the last one and the word boundaries 63/64/65
	Long bool `json:"long,omitempty"`
	// Remote: the schema is not the root document but a document supplied by the Loader; the root
	// is just a reference to it ({"$ref": uri} or {"allOf": [{"$ref": uri}]}), which changes no verdict.
	Remote int `json:"remote,omitempty"` // 0 no, 1 $ref, 2 allOf/$ref
}

const c07RemoteURI = "http://c07.test/dir/s.json"

// c07LongArrays: mostly "x", with 1 at the given positions.
func c07LongArrays() []*jv.V {
	var out []*jv.V
	mk := func(l int, ones ...int) {
		a := &jv.V{K: jv.Arr, A: make([]*jv.V, l)}
		for i := range a.A {
			a.A[i] = c07Items[1].Clone()
		}
		for _, i := range ones {
			if i < l {
				a.A[i] = c07Items[0].Clone()
			}
		}
		out = append(out, a)
	}
	mk(64, 63)
	mk(65, 64)
	mk(65, 63)
	mk(66, 64, 65)
	mk(66, 0)
	mk(130, 64, 128)
	mk(130, 129)
	mk(65)
	return out
}

var (
	c07Names = []string{"a", "b", "c", "d"}
	c07Vals  = map[string]*jv.V{"a": jv.NumV("1"), "b": jv.StrV("x"), "c": jv.NullV(), "d": jv.NumV("2")}
	c07Items = []*jv.V{jv.NumV("1"), jv.StrV("x")}
)

func c07Instances(mode string) []*jv.V {
	var out []*jv.V
	if mode == "object" {
		for mask := 0; mask < 16; mask++ {
			o := jv.ObjV()
			for i, n := range c07Names {
				if mask&(1<<i) != 0 {
					o.Set(n, c07Vals[n].Clone())
				}
			}
			out = append(out, o)
		}
		return out
	}
	for l := 0; l <= 4; l++ {
		for mask := 0; mask < 1<<l; mask++ {
			a := &jv.V{K: jv.Arr, A: []*jv.V{}}
			for i := 0; i < l; i++ {
				a.A = append(a.A, c07Items[(mask>>i)&1].Clone())
			}
			out = append(out, a)
		}
	}
	return out
}

type c07gen struct {
	t    *rapid.T
	mode string
	defs int
	dyn  bool
}

func (g *c07gen) n(k int, label string) int { return rapid.IntRange(0, k-1).Draw(g.t, label) }

// leafSub is the subschema applied to a property/item: mostly true, so that an extra
// property/item is the only possible cause of failure.
func (g *c07gen) leafSub() *jv.V {
	switch g.n(14, "leafsub") {
	case 0:
		return jv.ObjV(jv.Member{K: "type", V: jv.StrV("integer")})
	case 1:
		return jv.BoolV(false)
	case 2:
		return jv.ObjV(jv.Member{K: "type", V: jv.StrV("string")})
	case 3:
		return jv.ObjV() // the empty schema: true in another shape
	case 4:
		return jv.ObjV(jv.Member{K: "title", V: jv.StrV("t")}) // true again, but not structurally empty
	}
	return jv.BoolV(true)
}

func (g *c07gen) uneval() *jv.V {
	switch g.n(5, "unevalval") {
	case 0:
		return jv.BoolV(true)
	case 1:
		return jv.ObjV(jv.Member{K: "type", V: jv.StrV("integer")})
	case 2:
		return jv.ObjV(jv.Member{K: "type", V: jv.StrV("string")})
	}
	return jv.BoolV(false)
}

func (g *c07gen) node(depth int, allowRef bool) *jv.V {
	s := jv.ObjV()
	obj := g.mode == "object"
	// leaf keywords
	if obj {
		if g.n(2, "props") == 0 {
			p := jv.ObjV()
			for _, nm := range c07Names {
				if g.n(3, "inprops") == 0 {
					p.Set(nm, g.leafSub())
				}
			}
			s.Set("properties", p)
		}
		if g.n(6, "pprops") == 0 {
			s.Set("patternProperties", jv.ObjV(jv.Member{K: rapid.SampledFrom([]string{"^a", "^[bc]$", "d"}).Draw(g.t, "pp"), V: g.leafSub()}))
		}
		if g.n(8, "aprops") == 0 {
			s.Set("additionalProperties", g.leafSub())
		}
		if g.n(8, "req") == 0 {
			s.Set("required", jv.ArrV(jv.StrV(rapid.SampledFrom(c07Names).Draw(g.t, "reqname"))))
		}
	} else {
		if g.n(2, "prefix") == 0 {
			k := 1 + g.n(3, "nprefix")
			arr := &jv.V{K: jv.Arr}
			for i := 0; i < k; i++ {
				arr.A = append(arr.A, g.leafSub())
			}
			s.Set("prefixItems", arr)
		}
		if g.n(6, "items") == 0 {
			s.Set("items", g.leafSub())
		}
		if g.n(4, "contains") == 0 {
			s.Set("contains", jv.ObjV(jv.Member{K: "const", V: c07Items[g.n(2, "cv")].Clone()}))
			if g.n(3, "containsany") == 0 {
				// a contains that every item (or none) matches, in each of its shapes
				s.Set("contains", g.leafSub())
			}
			if g.n(3, "minc") == 0 {
				s.Set("minContains", jv.NumV(fmt.Sprint(g.n(3, "mincv"))))
			}
			if g.n(5, "maxc") == 0 {
				s.Set("maxContains", jv.NumV(fmt.Sprint(1+g.n(2, "maxcv"))))
			}
		}
		if g.n(6, "minitems") == 0 {
			s.Set("minItems", jv.NumV(fmt.Sprint(g.n(3, "mi"))))
		}
	}
	if depth > 0 {
		subs := func(k int) *jv.V {
			arr := &jv.V{K: jv.Arr}
			for i := 0; i < k; i++ {
				if g.n(12, "falsebranch") == 0 {
					arr.A = append(arr.A, jv.BoolV(false))
				} else {
					arr.A = append(arr.A, g.node(depth-1, allowRef))
				}
			}
			return arr
		}
		for i, kw := range []string{"allOf", "anyOf", "oneOf"} {
			if g.n(4+2*i, kw) == 0 {
				s.Set(kw, subs(1+g.n(3, "nbranch")))
			}
		}
		if g.n(8, "not") == 0 {
			s.Set("not", g.node(depth-1, allowRef))
		}
		if g.n(4, "if") == 0 {
			s.Set("if", g.node(depth-1, allowRef))
			if g.n(3, "then") > 0 {
				s.Set("then", g.node(depth-1, allowRef))
			}
			if g.n(3, "else") > 0 {
				s.Set("else", g.node(depth-1, allowRef))
			}
		}
		if obj && g.n(4, "depschemas") == 0 {
			d := jv.ObjV()
			for i, k := 0, 1+g.n(2, "nds"); i < k; i++ {
				d.Set(rapid.SampledFrom(c07Names).Draw(g.t, "dsname"), g.node(depth-1, allowRef))
			}
			s.Set("dependentSchemas", d)
		}
	}
	if allowRef && g.defs > 0 && g.n(5, "ref") == 0 {
		i := g.n(g.defs, "refidx")
		if g.dyn && g.n(2, "dynref") == 0 {
			s.Set("$dynamicRef", jv.StrV(fmt.Sprintf("#N%d", i)))
		} else {
			s.Set("$ref", jv.StrV(fmt.Sprintf("#/$defs/d%d", i)))
		}
	}
	if g.n(4, "uneval") == 0 {
		if obj {
			s.Set("unevaluatedProperties", g.uneval())
		} else {
			s.Set("unevaluatedItems", g.uneval())
		}
	}
	return s
}

func genC07(t *rapid.T) *c07Case {
	g := &c07gen{t: t}
	g.mode = rapid.SampledFrom([]string{"object", "object", "array"}).Draw(t, "mode")
	g.defs = rapid.IntRange(0, 2).Draw(t, "ndefs")
	g.dyn = rapid.Bool().Draw(t, "dyn")
	depth := rapid.IntRange(1, 4).Draw(t, "depth")
	root := g.node(depth, true)
	kw := "unevaluatedProperties"
	if g.mode == "array" {
		kw = "unevaluatedItems"
	}
	if !root.Has(kw) && rapid.IntRange(0, 3).Draw(t, "rootuneval") > 0 {
		root.Set(kw, g.uneval())
	}
	if g.defs > 0 {
		defs := jv.ObjV()
		for i := 0; i < g.defs; i++ {
			d := g.node(rapid.IntRange(0, 1).Draw(t, "defdepth"), false)
			if g.dyn {
				d.Set("$dynamicAnchor", jv.StrV(fmt.Sprintf("N%d", i)))
			}
			defs.Set(fmt.Sprintf("d%d", i), d)
		}
		root.Set("$defs", defs)
	}
	return &c07Case{Mode: g.mode, Schema: root}
}

func modelVerdicts(schema *jv.V, insts []*jv.V, variant int) ([]bool, error) {
	refmodel.Variant = variant
	defer func() { refmodel.Variant = refmodel.VariantSpec }()
	m, err := refmodel.New(&refmodel.Universe{Root: schema}, refmodel.D2020)
	if err != nil {
		return nil, err
	}
	if variant == refmodel.VariantSpec {
		if err := m.ResolveEverything(); err != nil {
			return nil, err
		}
	}
	out := make([]bool, len(insts))
	for i, inst := range insts {
		v, err := m.Validate(inst)
		if err != nil {
			return nil, err
		}
		if m.NaiveCost > modelCostSeen {
			modelCostSeen = m.NaiveCost
		}
		out[i] = v
	}
	return out, nil
}

// modelCostSeen: the largest number of subschema evaluations a memo-less evaluator needs for one
// instance, over the modelVerdicts calls since it was last reset.
var modelCostSeen float64

func checkC07(c *c07Case, rec *ev.Recorder) *failure {
	insts := c07Instances(c.Mode)
	if c.Long && c.Mode == "array" {
		insts = append(insts, c07LongArrays()...)
	}
	modelCostSeen = 0
	want, err := modelVerdicts(c.Schema, insts, refmodel.VariantSpec)
	if errors.Is(err, refmodel.ErrBudget) || modelCostSeen > 2e6 {
		// exponentially many in-place paths: left out (see C01)
		if rec != nil {
			rec.Class("discard:exponentially-many-in-place-paths")
		}
		return nil
	}
	if err != nil {
		return failf("HARNESS: model: %v\n%s", err, c.Schema.JSON())
	}
	doc := c.Schema.JSON()
	var naive, leaky []bool
	if rec != nil {
		naive, _ = modelVerdicts(c.Schema, insts, refmodel.VariantNoInPlaceAnnotations)
		leaky, _ = modelVerdicts(c.Schema, insts, refmodel.VariantLeakyAnnotations)
	}
	return guard(func() *failure {
		var s jsonschema.Schema
		if err := json.Unmarshal([]byte(doc), &s); err != nil {
			return failf("Unmarshal rejects a well-formed schema: %v\n%s", err, doc)
		}
		var opts *jsonschema.ResolveOptions
		if c.Remote > 0 {
			remote := s
			s = jsonschema.Schema{Ref: c07RemoteURI}
			if c.Remote == 2 {
				s = jsonschema.Schema{AllOf: []*jsonschema.Schema{{Ref: c07RemoteURI}}}
			}
			opts = &jsonschema.ResolveOptions{BaseURI: "http://c07.test/root.json", Loader: func(u *url.URL) (*jsonschema.Schema, error) {
				if u.String() == c07RemoteURI {
					return &remote, nil
				}
				return nil, fmt.Errorf("no such document %s", u)
			}}
		}
		rs, err := s.Resolve(opts)
		if err != nil {
			return failf("Resolve rejects a well-formed schema: %v\n%s", err, doc)
		}
		for i, inst := range insts {
			got := rs.Validate(inst.ToAny())
			if rec != nil {
				dependsNested := naive != nil && naive[i] != want[i]
				dependsDrop := leaky != nil && leaky[i] != want[i]
				rec.ClassIf(dependsNested, "verdict-depends-on-in-place-annotations")
				rec.ClassIf(dependsDrop, "verdict-depends-on-dropping-failed/not-annotations")
				rec.ClassIf(want[i], "verdict:valid")
				rec.ClassIf(!want[i], "verdict:invalid")
				rec.Eval(dependsNested || dependsDrop, []byte(doc+"\x00"+inst.Canon()), func() any {
					return map[string]any{"schema": c.Schema, "instance": inst, "valid": want[i], "depends_on_nested_annotations": dependsNested, "depends_on_dropping_failed_annotations": dependsDrop}
				})
			}
			if (got == nil) != want[i] {
				return failf("verdict differs: library accepts=%v, specification (reference evaluator) says valid=%v\n schema:   %s\n instance: %s\n library error: %v", got == nil, want[i], doc, inst.JSON(), got)
			}
		}
		return nil
	})
}

func TestC07(t *testing.T) {
	rec := ev.For("C07")
	defer finish(rec)
	if n, mm, err := runModelOnSuite(); err != nil || len(mm) > 0 || n < 1500 {
		rec.Inconclusive("model-invalid: reference model does not reproduce the official suite")
		t.Fatalf("reference model invalid: %v %v", err, mm)
	}
	rec.Describe("case = a schema from the unevaluated* lens (tree of allOf/anyOf/oneOf/if-then-else/dependentSchemas/$ref/$dynamicRef/not to depth 4 over properties/patternProperties/additionalProperties resp. prefixItems/items/contains leaves, failing branches, cousins, nested unevaluated*) evaluated against ALL 16 objects over {a,b,c,d} resp. ALL 31 arrays over {1,\"x\"} of length<=4. Oracle: reference evaluator with explicit evaluated sets. Non-trivial (semantic rule): the specification's verdict differs from a deliberately wrong evaluator that ignores in-place annotations, or from one that leaks annotations of failed subschemas and of not — i.e. the verdict depends on exactly the annotation flow the property describes. Distinct = distinct (schema, instance).",
		"single-resource documents: $dynamicRef is exercised as an annotation-carrying in-place applicator (its scoping is C06's)")
	rapid.Check(t, watched("C07", propC07(rec)))
}

// propC07 is the property body, shared by TestC07 (rapid) and FuzzC07 (native fuzzing over
// rapid's bit stream).
func propC07(rec *ev.Recorder) func(t *rapid.T) {
	return func(t *rapid.T) {
		c := genC07(t)
		ev.SetCurrent("C07", c)
		c.Long = c.Mode == "array" && rapid.IntRange(0, 5).Draw(t, "longarrays") == 0
		if rapid.IntRange(0, 5).Draw(t, "remote") == 0 {
			c.Remote = 1 + rapid.IntRange(0, 1).Draw(t, "remotekind")
			rec.Class("schema:supplied-by-the-Loader")
		}
		rec.ClassIf(c.Long, "instances:long-arrays")
		rec.Class("mode:" + c.Mode)
		fl := checkC07(c, rec)
		if isHarnessFailure(fl) {
			rec.Inconclusive("generator-or-model-error: " + fl.Msg)
			rec.Flush()
			t.Fatalf("%s", fl.Msg)
		}
		if fl != nil {
			report(t, rec, c, fl)
		}
		rec.Case()
	}
}

func init() {
	replayers["C07"] = func(raw json.RawMessage) *failure {
		var c c07Case
		if err := json.Unmarshal(raw, &c); err != nil {
			return failf("REPLAY-HARNESS-ERROR: %v", err)
		}
		fl := checkC07(&c, nil)
		if isHarnessFailure(fl) {
			return failf("REPLAY-HARNESS-ERROR: %s", fl.Msg)
		}
		return fl
	}
}
