package props

// C14 — Resolve, Validate and Marshal are pure and deterministic.
//
// Generator: (schema document biased to order-sensitive shapes, or a Loader universe;
// instances in mixed Go representations) x a history of 3-12 Resolve / Validate / Marshal
// calls over the same objects.
// Oracles: (1) purity — the Schema tree, every Schema returned by the Loader and every
// instance are deep-equal to independently built twins after every call; (2) in-process
// determinism — every repetition of a call yields the same verdict / the same bytes /
// the same Resolve outcome; (3) cross-process determinism — the driver runs the same seed in
// several fresh processes (fresh hash seeds) and compares per-case digests.

import (
	"bufio"
	"bytes"
	"encoding/json"
	"fmt"
	"net/url"
	"os"
	"reflect"
	"regexp"
	"sort"
	"strings"
	"testing"

	"github.com/google/jsonschema-go/jsonschema"
	"pgregory.net/rapid"

	"verif/ev"
	"verif/jv"
	"verif/refmodel"
	"verif/repr"
	"verif/sgen"
	"verif/ugen"
)

type c14Case struct {
	Family    string         `json:"family"` // doc | universe
	Doc       *jv.V          `json:"doc,omitempty"`
	U         *ugen.Universe `json:"universe,omitempty"`
	Instances []*jv.V        `json:"instances"`
	Choices   [][]int        `json:"choices"`
	Ops       []string       `json:"ops"` // "resolve" | "marshal" | "validate:<i>"
	// Fixed[i] > 0: instance i is built as c14FixedTypes[Fixed[i]-1] when that type can hold it
	// (the plain typed containers a Go caller passes most often).
	Fixed []int `json:"fixed,omitempty"`
	// Orders: every object schema of the tree gets a PropertyOrder (stale names first and in the
	// middle, the real names in descending order), as a caller who builds schemas in Go may set it.
	Orders bool `json:"orders,omitempty"`
	// DupTypes: every type list of the tree gets its first name twice.
	DupTypes bool `json:"dup_types,omitempty"`
}

var c14FixedTypes = []reflect.Type{
	reflect.TypeFor[[]string](), reflect.TypeFor[[]int](), reflect.TypeFor[[]float64](), reflect.TypeFor[map[string]string](),
	reflect.TypeFor[[][]string](), reflect.TypeFor[map[string][]string](), reflect.TypeFor[[]map[string]any](),
}

func (c *c14Case) build(i int) any {
	b := &repr.Builder{C: &repr.Script{Seq: c.Choices[i]}}
	if i < len(c.Fixed) && c.Fixed[i] > 0 && c.Fixed[i] <= len(c14FixedTypes) {
		if x, ok := b.BuildAs(c.Instances[i], c14FixedTypes[c.Fixed[i]-1]); ok {
			return x
		}
	}
	return b.Build(c.Instances[i])
}

var digestOut *bufio.Writer

func init() {
	if p := os.Getenv("VERIF_DIGEST"); p != "" {
		if f, err := os.Create(p); err == nil {
			digestOut = bufio.NewWriter(f)
		}
	}
}

func checkC14(c *c14Case, rec *ev.Recorder) (fl *failure, digest string) {
	var rootText string
	var docs map[string]*jv.V
	base := ""
	if c.Family == "universe" {
		relinkAliases(c.U)
		rootText, docs, base = c.U.Root.JSON(), c.U.Docs, c.U.BaseURI
	} else {
		rootText = c.Doc.JSON()
	}
	var dig strings.Builder
	fl = guard(func() *failure {
		mk := func() (*jsonschema.Schema, error) {
			var s jsonschema.Schema
			err := json.Unmarshal([]byte(rootText), &s)
			if err == nil && c.DupTypes {
				for _, x := range schemaList(&s) {
					if len(x.Types) >= 1 {
						// ["a","b"] -> ["a","a","b"]: a repeated name changes nothing about validity
						x.Types = append([]string{x.Types[0]}, x.Types...)
					}
				}
			}
			if err == nil && c.Orders {
				for _, x := range schemaList(&s) {
					if len(x.Properties) == 0 {
						continue
					}
					ks := make([]string, 0, len(x.Properties))
					for k := range x.Properties {
						ks = append(ks, k)
					}
					sort.Sort(sort.Reverse(sort.StringSlice(ks)))
					po := []string{"zz-stale-first"}
					for i, k := range ks {
						po = append(po, k)
						if i == 0 {
							po = append(po, "zz-stale-middle")
						}
					}
					x.PropertyOrder = po
				}
			}
			return &s, err
		}
		s, err := mk()
		twin, _ := mk()
		if err != nil {
			return failf("Unmarshal rejects a well-formed document: %v\n%s", err, rootText)
		}
		// loader hands out one Schema per URI, keeping a twin of each for the purity check
		served := map[string]*jsonschema.Schema{}
		servedTwin := map[string]*jsonschema.Schema{}
		loader := func(u *url.URL) (*jsonschema.Schema, error) {
			d, ok := docs[u.String()]
			if !ok {
				return nil, fmt.Errorf("no such document %s", u)
			}
			var a, b jsonschema.Schema
			if err := json.Unmarshal([]byte(d.JSON()), &a); err != nil {
				return nil, err
			}
			_ = json.Unmarshal([]byte(d.JSON()), &b)
			served[u.String()+fmt.Sprint(len(served))] = &a
			servedTwin[u.String()+fmt.Sprint(len(servedTwin))] = &b
			return &a, nil
		}
		opts := &jsonschema.ResolveOptions{BaseURI: base}
		if len(docs) > 0 {
			opts.Loader = loader
		}
		insts := make([]any, len(c.Instances))
		instTwins := make([]any, len(c.Instances))
		for i := range c.Instances {
			insts[i] = c.build(i)
			instTwins[i] = c.build(i)
		}
		pure := func(after string) *failure {
			if !reflect.DeepEqual(s, twin) {
				return failf("%s modified the Schema tree it was given\n doc: %s", after, rootText)
			}
			for k, a := range served {
				if !reflect.DeepEqual(a, servedTwin[k]) {
					return failf("%s modified a Schema returned by the Loader (%s)\n root: %s", after, k, rootText)
				}
			}
			for i := range insts {
				if !reflect.DeepEqual(insts[i], instTwins[i]) {
					return failf("%s modified instance %d (%s)\n doc: %s", after, i, c.Instances[i].JSON(), rootText)
				}
			}
			return nil
		}
		var rs *jsonschema.Resolved
		firstResolveOK := map[bool]bool{}
		resolved := false
		var firstBytes []byte
		firstVerdict := map[int]bool{}
		seenVerdict := map[int]bool{}
		for step, op := range c.Ops {
			switch {
			case op == "resolve":
				r, err := s.Resolve(opts)
				if resolved {
					if _, ok := firstResolveOK[err == nil]; !ok {
						return failf("step %d: Resolve of the same schema gives a different outcome than before (now %v)\n doc: %s", step, err, rootText)
					}
				}
				firstResolveOK[err == nil] = true
				resolved = true
				if err == nil {
					rs = r
				}
				fmt.Fprintf(&dig, "R%v;", err == nil)
			case op == "marshal":
				b, err := json.Marshal(s)
				if err != nil {
					return failf("step %d: Marshal fails on an unmarshaled document: %v", step, err)
				}
				if firstBytes != nil && !bytes.Equal(firstBytes, b) {
					return failf("step %d: Marshal gives different bytes than before\n first: %s\n now:   %s", step, firstBytes, b)
				}
				firstBytes = b
				fmt.Fprintf(&dig, "M%x;", ev.Hash64(b))
			case strings.HasPrefix(op, "validate:"):
				if rs == nil {
					continue
				}
				var i int
				fmt.Sscanf(op, "validate:%d", &i)
				if i >= len(insts) {
					continue
				}
				got := rs.Validate(insts[i]) == nil
				// Go re-randomises map iteration on every range statement: repeat the call a few
				// times so that an order-dependent verdict shows within one history step
				for rep := 0; rep < 6; rep++ {
					if again := rs.Validate(insts[i]) == nil; again != got {
						return failf("step %d: validating instance %d twice in a row gives accept=%v then %v (verdict depends on map iteration order?)\n doc: %s\n instance: %s", step, i, got, again, rootText, c.Instances[i].JSON())
					}
				}
				if seenVerdict[i] && firstVerdict[i] != got {
					return failf("step %d: validating instance %d again gives accept=%v, before it was %v\n doc: %s\n instance: %s", step, i, got, firstVerdict[i], rootText, c.Instances[i].JSON())
				}
				seenVerdict[i], firstVerdict[i] = true, got
				fmt.Fprintf(&dig, "V%d%v;", i, got)
			}
			if f := pure(fmt.Sprintf("step %d (%s)", step, op)); f != nil {
				return f
			}
		}
		// the verdicts are a function of (schema, instance) alone: on a Resolved of its own and in
		// the opposite order (so that whatever an earlier call may have left behind in pools or
		// caches is different), every instance gets the verdict it got in the history
		if rs != nil && len(seenVerdict) > 0 {
			s3, err := mk()
			if err == nil {
				if rs3, err := s3.Resolve(opts); err == nil {
					for i := len(insts) - 1; i >= 0; i-- {
						if !seenVerdict[i] {
							continue
						}
						for rep := 0; rep < 2; rep++ {
							if got := rs3.Validate(c.build(i)) == nil; got != firstVerdict[i] {
								return failf("instance %d is accepted=%v in the history but accepted=%v when the same instances are validated in the opposite order on a freshly resolved copy of the schema (the verdict depends on earlier calls)\n doc: %s\n instance: %s", i, firstVerdict[i], got, rootText, c.Instances[i].JSON())
							}
						}
					}
				}
			}
		}
		return nil
	})
	return fl, dig.String()
}

// genMixedUniverse draws a universe whose documents are of different drafts and share a remote
// document that declares no $schema, with constructs only one of the drafts understands. Which
// outcome is right is not this property's business; that it is the same every time is.
func genMixedUniverse(t *rapid.T) *ugen.Universe {
	n := func(k int, l string) int { return rapid.IntRange(0, k-1).Draw(t, l) }
	common := jv.ObjV()
	defs := jv.ObjV()
	defs.Set("a", jv.ObjV(jv.Member{K: "$anchor", V: jv.StrV("foo")}, jv.Member{K: "type", V: jv.StrV("string")}))
	switch n(4, "commonkind") {
	case 0:
		defs.Set("b", jv.ObjV(jv.Member{K: "$id", V: jv.StrV("#bar")}, jv.Member{K: "type", V: jv.StrV("integer")}))
	case 1:
		defs.Set("b", jv.ObjV(jv.Member{K: "$dynamicAnchor", V: jv.StrV("bar")}, jv.Member{K: "type", V: jv.StrV("integer")}))
	case 2:
		defs.Set("b", jv.ObjV(jv.Member{K: "$anchor", V: jv.StrV("bar")}, jv.Member{K: "type", V: jv.StrV("integer")}))
	}
	dk := "$defs"
	if n(3, "definitions") == 0 {
		dk = "definitions"
	}
	common.Set(dk, defs)
	if n(3, "commonitems") == 0 {
		// `items` as an array: tuple validation in draft-07 only
		common.Set("items", jv.ArrV(jv.ObjV(jv.Member{K: "type", V: jv.StrV("string")})))
	}
	targets := []string{"http://m.test/common.json#foo", "http://m.test/common.json#bar", "http://m.test/common.json", "http://m.test/common.json#/" + dk + "/a",
		"http://m.test/d7.json", "http://m.test/d2020.json", "http://m.test/none.json", "http://m.test/d7.json#/properties/x", "http://m.test/d2020.json#/properties/x"}
	mid := func(schemaURI string) *jv.V {
		d := jv.ObjV()
		if schemaURI != "" {
			d.Set("$schema", jv.StrV(schemaURI))
		}
		props := jv.ObjV()
		for i, k := 0, 1+n(3, "nmidrefs"); i < k; i++ {
			kw := "$ref"
			if n(4, "middynamic") == 0 {
				// a 2020-12 keyword whatever the document declares: followed or not by the ROOT's draft
				kw = "$dynamicRef"
			}
			props.Set([]string{"x", "y", "z"}[i], jv.ObjV(jv.Member{K: kw, V: jv.StrV(targets[n(4, "midtarget")])}))
		}
		d.Set("properties", props)
		return d
	}
	root := jv.ObjV()
	switch n(3, "rootschema") {
	case 0:
		root.Set("$schema", jv.StrV(refmodel.URI2020))
	case 1:
		root.Set("$schema", jv.StrV(refmodel.URI7))
	}
	props := jv.ObjV()
	for i, k := 0, 2+n(5, "nrootrefs"); i < k; i++ {
		props.Set(fmt.Sprintf("p%d", i), jv.ObjV(jv.Member{K: "$ref", V: jv.StrV(targets[n(len(targets)-1, "roottarget")])}))
	}
	root.Set("properties", props)
	u := &ugen.Universe{BaseURI: "http://m.test/root.json", Root: root, Docs: map[string]*jv.V{
		"http://m.test/common.json": common,
		"http://m.test/d7.json":     mid(refmodel.URI7),
		"http://m.test/d2020.json":  mid(refmodel.URI2020),
		"http://m.test/none.json":   mid(""),
	}}
	return u
}

// touchAllInstance builds an object that mentions every name the map-valued keywords of s talk
// about (so that several entries of one map apply to the same instance), then drops one of them
// half of the time (so that one entry is met and another is not).
func touchAllInstance(t *rapid.T, s *jv.V, depth int) *jv.V {
	small := func() *jv.V { return jv.Gen(jv.Opts{MaxDepth: 1, MaxLen: 2}).Draw(t, "touchval") }
	if s == nil || s.K != jv.Obj {
		return small()
	}
	var names []string
	seen := map[string]bool{}
	add := func(n string) {
		if !seen[n] {
			seen[n] = true
			names = append(names, n)
		}
	}
	for _, kw := range []string{"properties", "dependentRequired", "dependentSchemas", "dependencies"} {
		if m := s.Get(kw); m != nil && m.K == jv.Obj {
			for _, e := range m.O {
				add(e.K)
				if e.V.K == jv.Arr {
					for _, r := range e.V.A {
						if r.K == jv.Str {
							add(r.S)
						}
					}
				}
			}
		}
	}
	if r := s.Get("required"); r != nil && r.K == jv.Arr {
		for _, e := range r.A {
			if e.K == jv.Str {
				add(e.S)
			}
		}
	}
	if pp := s.Get("patternProperties"); pp != nil && pp.K == jv.Obj && len(pp.O) >= 2 {
		// names that some, but not all, of the patterns match (and one that all of them match)
		var res []*regexp.Regexp
		for _, e := range pp.O {
			if re, err := regexp.Compile(e.K); err == nil {
				res = append(res, re)
			}
		}
		partial := 0
		for _, cand := range []string{"a", "b", "ab", "ac", "abc", "ba", "c", "1", "a1", "\u00e9", "", "xy", "aa", "abab"} {
			k := 0
			for _, re := range res {
				if re.MatchString(cand) {
					k++
				}
			}
			if k > 0 && k < len(res) && partial < 3 {
				add(cand)
				partial++
			}
		}
	}
	if len(names) == 0 {
		return small()
	}
	drop := -1
	if rapid.Bool().Draw(t, "touchdrop") {
		drop = rapid.IntRange(0, len(names)-1).Draw(t, "touchdropidx")
	}
	o := jv.ObjV()
	props := s.Get("properties")
	for i, n := range names {
		if i == drop {
			continue
		}
		var ps *jv.V
		if props != nil && props.K == jv.Obj {
			ps = props.Get(n)
		}
		if ps != nil && depth > 0 && rapid.Bool().Draw(t, "touchdescend") {
			o.Set(n, touchAllInstance(t, ps, depth-1))
		} else {
			o.Set(n, small())
		}
	}
	return o
}

func multiEntryMaps(v *jv.V) int {
	n := 0
	v.Walk(func(x *jv.V) {
		if x.K == jv.Obj {
			for _, m := range x.O {
				switch m.K {
				case "properties", "patternProperties", "dependentSchemas", "dependentRequired", "$defs", "definitions", "dependencies":
					if m.V.K == jv.Obj && len(m.V.O) >= 2 {
						n++
					}
				}
			}
		}
	})
	return n
}

func TestC14(t *testing.T) {
	rec := ev.For("C14")
	defer finish(rec)
	if digestOut != nil {
		defer digestOut.Flush()
	}
	rec.Describe("case = (schema document of either draft from the grammar, biased to the object/unevaluated lenses so that map-ranged keywords have >=2 entries — overlapping patternProperties, several dependentSchemas feeding unevaluated*, several properties of which one fails — or a Loader universe from the C03 generator; 3 instances in mixed Go representations; a history of 3-12 calls drawn from Resolve / Marshal / Validate(i) on the same objects). Oracles: purity against independently built twins (reflect.DeepEqual distinguishes nil from empty) of the Schema tree, of every Schema the Loader returned and of every instance, after every call; in-process determinism of verdicts, bytes and Resolve outcome; cross-process determinism through per-case digests compared by the driver over fresh processes. Non-trivial: a history with >=2 calls touching the same object and a schema with >=1 map keyword of >=2 entries (or a universe with >=1 Loader document). Distinct = distinct case.",
		"Go re-randomises map iteration per range statement and the hash seed per process; both are sampled (repetitions, fresh processes), not enumerated",
		"error texts are not compared (only error-ness): which of several violations is reported first may legitimately depend on map order")
	caseNo := 0
	rapid.Check(t, func(t *rapid.T) {
		c := &c14Case{}
		fam := rapid.IntRange(0, 7).Draw(t, "family")
		if fam == 2 {
			c.Family = "universe"
			c.U = genMixedUniverse(t)
			for i := 0; i < 3; i++ {
				c.Instances = append(c.Instances, jv.ObjV(jv.Member{K: fmt.Sprintf("p%d", rapid.IntRange(0, 3).Draw(t, "pi")), V: jv.Gen(jv.Opts{MaxDepth: 2}).Draw(t, "inst")}))
			}
		} else if fam < 2 {
			c.Family = "universe"
			c.U = ugen.Gen(t)
			if c.U.LoaderNil {
				c.U.Docs = nil
			}
			if rapid.Bool().Draw(t, "rootschema") && c.U.Root.K == jv.Obj {
				// a root that declares $schema: Loader documents without one inherit its draft, which
				// must not be done by writing into them
				c.U.Root.O = append([]jv.Member{{K: "$schema", V: jv.StrV(refmodel.URI2020)}}, c.U.Root.O...)
			}
			for _, r := range c.U.Routes {
				if len(c.Instances) < 3 {
					c.Instances = append(c.Instances, ugen.Instance(r.Path, r.Intended))
				}
			}
			for len(c.Instances) < 3 {
				c.Instances = append(c.Instances, jv.Gen(jv.Opts{MaxDepth: 2}).Draw(t, "inst"))
			}
		} else {
			c.Family = "doc"
			d := refmodel.D2020
			if rapid.IntRange(0, 3).Draw(t, "d7") == 0 {
				d = refmodel.D7
			}
			lens := rapid.SampledFrom([]sgen.Lens{sgen.LensObject, sgen.LensObject, sgen.LensObject, sgen.LensUneval, sgen.LensUneval, sgen.LensAny, sgen.LensArray, sgen.LensString}).Draw(t, "lens")
			c.Doc = sgen.Draw(t, sgen.Opts{Draft: d, MaxDepth: 3, Lens: lens})
			c.Instances = sgen.Instances(t, c.Doc, 3)
			if multiEntryMaps(c.Doc) > 0 {
				// one instance under which several entries of the same map keyword apply at once
				c.Instances[2] = touchAllInstance(t, c.Doc, 2)
			}
			stripUnsafeMultipleOf(c.Doc, c.Instances)
			if lens == sgen.LensArray || lens == sgen.LensString || rapid.IntRange(0, 3).Draw(t, "plainlists") == 0 {
				// plain typed lists in an order that is neither ascending nor descending, with and
				// without a repeated element
				lists := []string{`["b","a","c"]`, `["b","a","b"]`, `[3,1,2]`, `[2.5,-1,2.5,0]`, `[["b","a"],["a"]]`, `{"k":["z","y","z"]}`, `["b","","a"]`}
				v, _ := jv.Parse(rapid.SampledFrom(lists).Draw(t, "plainlist"))
				c.Instances[1] = v
				c.Fixed = []int{0, 1 + rapid.IntRange(0, len(c14FixedTypes)-1).Draw(t, "fixedtype"), 0}
				if c.Doc.K == jv.Obj && !c.Doc.Has("uniqueItems") && rapid.Bool().Draw(t, "adduniqueitems") {
					c.Doc.Set("uniqueItems", jv.BoolV(true))
				}
			}
		}
		for _, v := range c.Instances {
			l := &repr.Logger{In: repr.RapidChooser{T: t}}
			(&repr.Builder{C: l}).Build(v)
			c.Choices = append(c.Choices, l.Log)
		}
		c.Orders = rapid.IntRange(0, 3).Draw(t, "orders") == 0
		c.DupTypes = rapid.IntRange(0, 5).Draw(t, "duptypes") == 0
		rec.ClassIf(c.Orders, "schemas:with-PropertyOrder-incl-stale-names")
		c.Ops = []string{"resolve"}
		mixed := fam == 2
		rec.ClassIf(mixed, "universe:documents-of-different-drafts")
		for i, n := 0, rapid.IntRange(2, 11).Draw(t, "nops"); i < n; i++ {
			k := rapid.IntRange(0, 5).Draw(t, "op")
			if mixed && k >= 3 {
				k = 0 // Resolve again: the order in which references are followed may be re-drawn each time
			}
			switch k {
			case 0:
				c.Ops = append(c.Ops, "resolve")
			case 1:
				c.Ops = append(c.Ops, "marshal")
			default:
				c.Ops = append(c.Ops, fmt.Sprintf("validate:%d", rapid.IntRange(0, 2).Draw(t, "vi")))
			}
		}
		fl, dig := checkC14(c, rec)
		nt := false
		if c.Family == "doc" {
			nt = multiEntryMaps(c.Doc) >= 1
		} else {
			nt = len(c.U.Docs) >= 1
		}
		rec.Class("family:" + c.Family)
		rec.Eval(nt, ev.JSON(c), func() any { return c })
		if digestOut != nil {
			fmt.Fprintf(digestOut, "%d %x %x\n", caseNo, ev.Hash64(ev.JSON(c)), ev.Hash64([]byte(dig)))
		}
		caseNo++
		if fl != nil {
			report(t, rec, c, fl)
		}
		rec.Case()
	})
}

func init() {
	replayers["C14"] = func(raw json.RawMessage) *failure {
		var c c14Case
		if err := json.Unmarshal(raw, &c); err != nil {
			return failf("REPLAY-HARNESS-ERROR: %v", err)
		}
		fixNils(c.Instances)
		fl, _ := checkC14(&c, nil)
		return fl
	}
}
