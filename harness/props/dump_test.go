package props

// Development aid ("who checks the checker", DESIGN.md 3.4 (2)): dumps generated
// (schema, instance, model verdict) triples as JSON lines for tools/audit_model.py, which replays
// them through python-jsonschema. Not part of any registered check.

import (
	"bufio"
	"encoding/json"
	"os"
	"testing"

	"pgregory.net/rapid"

	"verif/jv"
	"verif/refmodel"
	"verif/sgen"
)

func TestDumpModelCases(t *testing.T) {
	path := os.Getenv("VERIF_DUMP")
	if path == "" {
		t.Skip("VERIF_DUMP not set")
	}
	f, err := os.Create(path)
	if err != nil {
		t.Fatal(err)
	}
	defer f.Close()
	w := bufio.NewWriter(f)
	defer w.Flush()
	enc := json.NewEncoder(w)
	rapid.Check(t, func(t *rapid.T) {
		var schema *jv.V
		var insts []*jv.V
		draft := refmodel.D2020
		switch rapid.IntRange(0, 3).Draw(t, "kind") {
		case 0:
			c7 := genC07(t)
			schema, insts = c7.Schema, c07Instances(c7.Mode)
		case 1:
			draft = refmodel.D7
			schema = sgen.Draw(t, sgen.Opts{Draft: refmodel.D7, MaxDepth: 3})
			insts = sgen.Instances(t, schema, 4)
		default:
			schema = sgen.Draw(t, sgen.Opts{Draft: refmodel.D2020, MaxDepth: 3})
			insts = sgen.Instances(t, schema, 4)
		}
		stripUnsafeMultipleOf(schema, insts)
		m, err := refmodel.New(&refmodel.Universe{Root: schema}, draft)
		if err != nil {
			return
		}
		for _, inst := range insts {
			v, err := m.Validate(inst)
			if err != nil {
				continue
			}
			_ = enc.Encode(map[string]any{"draft7": draft == refmodel.D7, "schema": schema, "instance": inst, "valid": v})
		}
	})
}
