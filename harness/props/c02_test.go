package props

// C02 — Draft-07 schemas are validated with draft-07 semantics; an unsupported $schema is
// refused.
//
// Three families:
//   doc:     one draft-07 document (draft-07 vocabulary) x instances, oracle = refmodel in D7 mode
//   remote:  draft-07 root + 1-2 Loader documents with/without their own $schema, referenced
//            from the root and from subschemas, incl. "#name" $id anchors in remote documents
//   config:  the same (schema, instance) pair under every root $schema configuration
//            {absent, 2020-12, draft-07 http, draft-07 https, unsupported}

import (
	"encoding/json"
	"fmt"
	"net/url"
	"sort"
	"testing"

	"github.com/google/jsonschema-go/jsonschema"
	"pgregory.net/rapid"

	"verif/ev"
	"verif/jv"
	"verif/refmodel"
	"verif/sgen"
)

type c02Case struct {
	Family    string           `json:"family"` // doc | remote | config
	Root      *jv.V            `json:"root"`
	RootURI   string           `json:"root_uri,omitempty"`
	Docs      map[string]*jv.V `json:"docs,omitempty"`
	Instances []*jv.V          `json:"instances"`
	Configs   []string         `json:"configs,omitempty"` // $schema values for family config ("" = absent)
	// NearMiss: the root's $schema differs from a draft-07 spelling only by the trailing '#'.
	// Whether the package supports such a spelling is its own choice, so the expectation is a
	// disjunction: refused for every instance, OR validated with draft-07 semantics throughout.
	NearMiss bool `json:"near_miss,omitempty"`
}

var unsupportedSchemas = []string{
	"http://json-schema.org/draft-04/schema#", "http://json-schema.org/draft-06/schema#", "http://json-schema.org/draft-03/schema#",
	"https://json-schema.org/draft/2019-09/schema", "https://json-schema.org/draft/next/schema",
	"https://example.com/my-meta-schema", "garbage", "http://json-schema.org/schema#",
}

// loaderFor serves documents by retrieval URI, unmarshalling a fresh Schema per call, and logs calls.
func loaderFor(docs map[string]*jv.V, log *[]string) jsonschema.Loader {
	return func(u *url.URL) (*jsonschema.Schema, error) {
		if log != nil {
			*log = append(*log, u.String())
		}
		d, ok := docs[u.String()]
		if !ok {
			return nil, fmt.Errorf("no such document %s", u)
		}
		var s jsonschema.Schema
		if err := json.Unmarshal([]byte(d.JSON()), &s); err != nil {
			return nil, err
		}
		return &s, nil
	}
}

func sortedKeys[V any](m map[string]V) []string {
	ks := make([]string, 0, len(m))
	for k := range m {
		ks = append(ks, k)
	}
	sort.Strings(ks)
	return ks
}

func withSchemaKW(root *jv.V, uri string) *jv.V {
	c := root.Clone()
	if c.K != jv.Obj {
		if c.B {
			c = jv.ObjV()
		} else {
			c = jv.ObjV(jv.Member{K: "not", V: jv.ObjV()})
		}
	}
	c.Del("$schema")
	if uri != "" {
		c.O = append([]jv.Member{{K: "$schema", V: jv.StrV(uri)}}, c.O...)
	}
	return c
}

func checkC02(c *c02Case, rec *ev.Recorder) *failure {
	switch c.Family {
	case "config":
		return checkC02Config(c, rec)
	}
	// doc / remote: draft-07 semantics
	m, err := refmodel.New(&refmodel.Universe{Root: c.Root, RootURI: c.RootURI, Docs: c.Docs}, refmodel.D7)
	if err != nil {
		return failf("HARNESS: model cannot index: %v", err)
	}
	if err := m.ResolveEverything(); err != nil {
		return failf("HARNESS: generated universe has a dangling reference: %v", err)
	}
	// the same document read as 2020-12, only to classify cases on which the drafts disagree
	// (fragment-only $id values, which 2020-12 refuses, are dropped from the copy first)
	root20 := c.Root.Clone()
	root20.Walk(func(x *jv.V) {
		if x.K == jv.Obj {
			if id := x.Get("$id"); id != nil && id.K == jv.Str && len(id.S) > 0 && id.S[0] == '#' {
				x.Del("$id")
			}
		}
	})
	m20, _ := refmodel.New(&refmodel.Universe{Root: root20, RootURI: c.RootURI, Docs: c.Docs}, refmodel.D2020)
	doc := c.Root.JSON()
	return guard(func() *failure {
		var s jsonschema.Schema
		if err := json.Unmarshal([]byte(doc), &s); err != nil {
			return failf("Unmarshal rejects a well-formed draft-07 document: %v\n%s", err, doc)
		}
		opts := &jsonschema.ResolveOptions{BaseURI: c.RootURI}
		if len(c.Docs) > 0 {
			opts.Loader = loaderFor(c.Docs, nil)
		}
		rs, err := s.Resolve(opts)
		if err != nil {
			if c.NearMiss {
				if rec != nil {
					rec.Class("near-miss-$schema:refused-by-Resolve")
				}
				return nil // refused
			}
			return failf("Resolve rejects a well-formed draft-07 universe: %v\n root: %s\n docs: %s", err, doc, mustJSON(c.Docs))
		}
		if c.NearMiss {
			anyAccepted := false
			for _, inst := range c.Instances {
				if rs.Validate(inst.ToAny()) == nil {
					anyAccepted = true
				}
			}
			if rec != nil {
				rec.ClassIf(anyAccepted, "near-miss-$schema:treated-as-supported")
				rec.ClassIf(!anyAccepted, "near-miss-$schema:refused")
			}
			if !anyAccepted {
				if rec != nil {
					rec.Eval(true, []byte(doc), func() any { return map[string]any{"family": "near-miss", "root": c.Root, "outcome": "refused"} })
				}
				return nil // refused for every instance
			}
		}
		for _, inst := range c.Instances {
			visited := map[*refmodel.Node]bool{}
			m.Trace = func(n *refmodel.Node) { visited[n] = true }
			want, err := m.Validate(inst)
			m.Trace = nil
			if err != nil {
				return failf("HARNESS: model error: %v", err)
			}
			got := rs.Validate(inst.ToAny())
			if rec != nil {
				differs := false
				if m20 != nil {
					if w20, err := m20.Validate(inst); err == nil && w20 != want {
						differs = true
					}
				}
				remoteFromSub := false
				for n := range visited {
					if n.DocURI != c.RootURI {
						remoteFromSub = true
					}
				}
				rec.ClassIf(differs, "drafts-disagree-on-instance")
				rec.ClassIf(remoteFromSub, "evaluation-enters-remote-document")
				rec.ClassIf(want, "verdict:valid")
				rec.ClassIf(!want, "verdict:invalid")
				rec.Eval(differs || remoteFromSub, []byte(doc+"\x00"+mustJSON(c.Docs)+"\x00"+inst.Canon()), func() any {
					return map[string]any{"family": c.Family, "root": c.Root, "docs": c.Docs, "instance": inst, "valid_draft07": want, "drafts_disagree": differs}
				})
			}
			if (got == nil) != want {
				return failf("draft-07 verdict differs: library accepts=%v, draft-07 reference evaluator says valid=%v\n root:     %s\n docs:     %s\n instance: %s\n library error: %v", got == nil, want, doc, mustJSON(c.Docs), inst.JSON(), got)
			}
		}
		return nil
	})
}

func checkC02Config(c *c02Case, rec *ev.Recorder) *failure {
	return guard(func() *failure {
		for _, cfg := range c.Configs {
			root := withSchemaKW(c.Root, cfg)
			doc := root.JSON()
			d, supported := refmodel.DraftOf(cfg)
			var s jsonschema.Schema
			if err := json.Unmarshal([]byte(doc), &s); err != nil {
				return failf("Unmarshal rejects a well-formed document: %v\n%s", err, doc)
			}
			rs, err := s.Resolve(nil)
			if !supported {
				// Refused: either Resolve fails or Validate fails for every instance.
				for _, inst := range c.Instances {
					if rec != nil {
						rec.Class("config:unsupported")
						rec.Eval(true, []byte(doc+"\x00"+inst.Canon()), func() any {
							return map[string]any{"family": "config", "root": root, "instance": inst, "expect": "refused"}
						})
					}
					if err == nil {
						if verr := rs.Validate(inst.ToAny()); verr == nil {
							return failf("a root with unsupported $schema %q is validated instead of refused\n schema: %s\n instance: %s", cfg, doc, inst.JSON())
						}
					}
				}
				continue
			}
			if err != nil {
				return failf("Resolve rejects a well-formed document under $schema=%q: %v\n%s", cfg, err, doc)
			}
			m, merr := refmodel.New(&refmodel.Universe{Root: root}, d)
			if merr != nil {
				return failf("HARNESS: model cannot index: %v", merr)
			}
			other := refmodel.D7
			if d == refmodel.D7 {
				other = refmodel.D2020
			}
			mo, _ := refmodel.New(&refmodel.Universe{Root: root}, other)
			for _, inst := range c.Instances {
				want, err := m.Validate(inst)
				if err != nil {
					return failf("HARNESS: model error: %v", err)
				}
				got := rs.Validate(inst.ToAny())
				if rec != nil {
					differs := false
					if mo != nil {
						if w2, err := mo.Validate(inst); err == nil && w2 != want {
							differs = true
						}
					}
					rec.Class("config:" + map[string]string{"": "absent", refmodel.URI2020: "2020-12", refmodel.URI7: "draft-07-http", refmodel.URI7Sec: "draft-07-https"}[cfg])
					rec.ClassIf(differs, "drafts-disagree-on-instance")
					rec.Eval(differs, []byte(doc+"\x00"+inst.Canon()), func() any {
						return map[string]any{"family": "config", "root": root, "instance": inst, "valid": want, "drafts_disagree": differs}
					})
				}
				if (got == nil) != want {
					return failf("verdict under $schema=%q differs: library accepts=%v, reference evaluator (that draft) says valid=%v\n schema:   %s\n instance: %s\n library error: %v", cfg, got == nil, want, doc, inst.JSON(), got)
				}
			}
		}
		return nil
	})
}

// genC02Remote builds a draft-07 root plus remote documents.
func genC02Remote(t *rapid.T) *c02Case {
	c := &c02Case{Family: "remote", RootURI: "http://x.test/root.json", Docs: map[string]*jv.V{}}
	nRemote := rapid.IntRange(1, 2).Draw(t, "nremote")
	type target struct {
		uri, rel string
		doc      *jv.V
	}
	var targets []target
	for i := 0; i < nRemote; i++ {
		name := fmt.Sprintf("r%d.json", i+1)
		if i == 1 && rapid.Bool().Draw(t, "subdir") {
			name = "sub/r2.json"
		}
		d := sgen.Draw(t, sgen.Opts{Draft: refmodel.D7, MaxDepth: 2, NoMeta: true, Lens: sgen.LensRefs})
		if d.K != jv.Obj {
			d = jv.ObjV(jv.Member{K: "type", V: jv.StrV("integer")})
		}
		switch rapid.IntRange(0, 2).Draw(t, "remoteschema") {
		case 1:
			d.O = append([]jv.Member{{K: "$schema", V: jv.StrV(refmodel.URI7)}}, d.O...)
		case 2:
			d.O = append([]jv.Member{{K: "$schema", V: jv.StrV(refmodel.URI7Sec)}}, d.O...)
		}
		uri := "http://x.test/" + name
		c.Docs[uri] = d
		targets = append(targets, target{uri, name, d})
	}
	spell := func(tg target) string {
		base := tg.rel
		if rapid.IntRange(0, 3).Draw(t, "absref") == 0 {
			base = tg.uri
		}
		var frags []string
		frags = append(frags, "")
		if defs := tg.doc.Get("definitions"); defs != nil {
			for _, m := range defs.O {
				frags = append(frags, "#/definitions/"+m.K)
				if id := m.V.Get("$id"); id != nil && id.K == jv.Str {
					frags = append(frags, id.S)
				}
			}
		}
		frag := rapid.SampledFrom(frags).Draw(t, "frag")
		if rapid.IntRange(0, 3).Draw(t, "via") == 0 {
			// through an intermediate document that declares the other draft and holds nothing but
			// the reference: a $schema-less target is still read under the root's draft
			vname := fmt.Sprintf("via%d.json", len(c.Docs))
			c.Docs["http://x.test/"+vname] = jv.ObjV(jv.Member{K: "$schema", V: jv.StrV(refmodel.URI2020)}, jv.Member{K: "$ref", V: jv.StrV(tg.uri + frag)})
			return vname
		}
		return base + frag
	}
	root := sgen.Draw(t, sgen.Opts{Draft: refmodel.D7, MaxDepth: 2})
	if root.K != jv.Obj {
		root = withSchemaKW(root, refmodel.URI7)
	}
	// the root itself must not be a $ref object when we add sibling carriers of references
	root.Del("$ref")
	nInj := rapid.IntRange(1, 3).Draw(t, "ninject")
	for i := 0; i < nInj; i++ {
		ref := jv.ObjV(jv.Member{K: "$ref", V: jv.StrV(spell(targets[rapid.IntRange(0, len(targets)-1).Draw(t, "tg")]))})
		if rapid.IntRange(0, 2).Draw(t, "idbeside") == 0 {
			// draft-07: "$id" beside "$ref" is ignored like every other sibling, so it must not
			// change the base URI the reference is resolved against.
			ref.Set("$id", jv.StrV(rapid.SampledFrom([]string{"http://elsewhere.test/dir/x.json", "other/dir/y.json", "http://x.test/sub/z.json"}).Draw(t, "besideid")))
			if rapid.Bool().Draw(t, "besidekw") {
				ref.Set("type", jv.StrV("null"))
			}
		}
		switch rapid.IntRange(0, 4).Draw(t, "where") {
		case 0: // root-level $ref (siblings are then ignored in draft-07)
			if rapid.IntRange(0, 2).Draw(t, "rootref") == 0 {
				root.Set("$ref", ref.Get("$ref"))
				continue
			}
			fallthrough
		case 1: // in-place, depth 1
			a := root.Get("allOf")
			if a == nil || a.K != jv.Arr {
				a = &jv.V{K: jv.Arr}
				root.Set("allOf", a)
			}
			a.A = append(a.A, ref)
		case 2: // under properties
			p := root.Get("properties")
			if p == nil || p.K != jv.Obj {
				p = jv.ObjV()
				root.Set("properties", p)
			}
			p.Set(rapid.SampledFrom(jv.KeyPool).Draw(t, "pkey"), ref)
		case 3: // two levels down
			p := root.Get("properties")
			if p == nil || p.K != jv.Obj {
				p = jv.ObjV()
				root.Set("properties", p)
			}
			p.Set(rapid.SampledFrom(jv.KeyPool).Draw(t, "pkey"), jv.ObjV(jv.Member{K: "items", V: ref}))
		default: // items
			root.Set("items", ref)
		}
	}
	// remote-to-remote reference
	if nRemote == 2 && rapid.Bool().Draw(t, "r2r") {
		d1 := targets[0].doc
		if !d1.Has("$ref") {
			p := d1.Get("properties")
			if p == nil || p.K != jv.Obj {
				p = jv.ObjV()
				d1.Set("properties", p)
			}
			p.Set("a", jv.ObjV(jv.Member{K: "$ref", V: jv.StrV(targets[1].uri)}))
		}
	}
	c.Root = root
	return c
}

// genC02Differ builds a draft-07 document around one or two constructs whose meaning differs
// between the drafts, with instances aimed at the difference.
func genC02Differ(t *rapid.T) *c02Case {
	c := &c02Case{Family: "doc"}
	n := func(k int, l string) int { return rapid.IntRange(0, k-1).Draw(t, l) }
	sub := func() *jv.V { return sgen.Sub(t, sgen.Opts{Draft: refmodel.D7, NoRefs: true}, 1) }
	root := jv.ObjV(jv.Member{K: "$schema", V: jv.StrV([]string{refmodel.URI7, refmodel.URI7Sec}[n(2, "uri")])})
	defs := jv.ObjV(jv.Member{K: "a", V: sub()})
	refTargets := []string{"#/definitions/a"}
	if n(2, "withanchor") == 0 {
		defs.Set("b", jv.ObjV(jv.Member{K: "$id", V: jv.StrV("#anch")}, jv.Member{K: "type", V: jv.StrV(rapid.SampledFrom(sgen.Types).Draw(t, "anchtype"))}))
		refTargets = append(refTargets, "#anch", "#/definitions/b")
	}
	root.Set("definitions", defs)
	holder := root
	if n(2, "nested") == 0 {
		holder = jv.ObjV()
		root.Set("properties", jv.ObjV(jv.Member{K: "a", V: holder}))
	}
	for i, k := 0, 1+n(2, "nconstructs"); i < k; i++ {
		switch n(5, "construct") {
		case 0, 1: // $ref with asserting siblings
			holder.Set("$ref", jv.StrV(rapid.SampledFrom(refTargets).Draw(t, "reft")))
			// a restrictive sibling (ignored in draft-07, asserting in 2020-12)
			switch n(6, "sibling") {
			case 0:
				holder.Set("type", jv.StrV(rapid.SampledFrom(sgen.Types).Draw(t, "sibtype")))
			case 1:
				holder.Set("minimum", jv.NumV("5"))
			case 2:
				holder.Set("required", jv.ArrV(jv.StrV("zz")))
			case 3:
				holder.Set("maxLength", jv.NumV("0"))
			case 4:
				holder.Set("not", jv.ObjV())
			default:
				holder.Set("const", jv.NumV("1"))
			}
		case 2: // array-form items + additionalItems
			arr := &jv.V{K: jv.Arr}
			for j, m := 0, n(3, "nitems"); j < m; j++ {
				arr.A = append(arr.A, sub())
			}
			holder.Set("items", arr)
			if n(3, "addl") > 0 {
				holder.Set("additionalItems", sub())
			}
		case 3: // dependencies
			d := jv.ObjV()
			d.Set(rapid.SampledFrom(jv.KeyPool).Draw(t, "depk"), jv.ArrV(jv.StrV(rapid.SampledFrom(jv.KeyPool).Draw(t, "depv"))))
			d.Set(rapid.SampledFrom(jv.KeyPool).Draw(t, "depk2"), sub())
			holder.Set("dependencies", d)
		default: // object-form items with additionalItems (which must then be ignored)
			holder.Set("items", sub())
			holder.Set("additionalItems", jv.BoolV(false))
		}
	}
	if n(5, "nearmiss") == 0 {
		c.NearMiss = true
		root.Set("$schema", jv.StrV([]string{"http://json-schema.org/draft-07/schema", "https://json-schema.org/draft-07/schema"}[n(2, "nm")]))
	}
	c.Root = root
	c.Instances = sgen.Instances(t, root, 2)
	// plus free values, arrays and objects aimed at the constructs
	for i := 0; i < 3; i++ {
		c.Instances = append(c.Instances, jv.Gen(jv.Opts{MaxDepth: 2, MaxLen: 4}).Draw(t, "aimed"))
	}
	if holder != root {
		for i := range c.Instances {
			if n(2, "wrap") == 0 {
				c.Instances[i] = jv.ObjV(jv.Member{K: "a", V: c.Instances[i]})
			}
		}
	}
	return c
}

func TestC02(t *testing.T) {
	rec := ev.For("C02")
	defer finish(rec)
	if n, mm, err := runModelOnSuite(); err != nil || len(mm) > 0 || n < 1500 {
		rec.Inconclusive("model-invalid: reference model does not reproduce the official suite")
		t.Fatalf("reference model invalid: %v %v", err, mm)
	}
	rec.Describe("three families. doc: draft-07 document (definitions, dependencies in both forms, items in both forms + additionalItems, $id:\"#name\" anchors, $ref with arbitrary siblings) x 4 instances vs the reference evaluator in draft-07 mode. remote: draft-07 root + 1-2 Loader documents (with or without their own draft-07 $schema) referenced from the root and from subschemas at depth 1-2, by relative/absolute URI, pointer and #name anchor, incl. remote-to-remote. config: one common-vocabulary schema x 4 instances under $schema in {absent, 2020-12, draft-07 http, draft-07 https, 2 unsupported values}; unsupported must be refused for every instance. Non-trivial: the two drafts' reference evaluators disagree on the instance, or evaluation enters a remote document, or the configuration is unsupported. Distinct = distinct (documents, instance).",
		"2020-12-only keywords are never put into draft-07 documents; $id below an ignored sibling of $ref is not generated",
		"unsupported $schema values are far from the supported spellings (other drafts, custom meta-schemas, garbage), so widening the accepted spellings raises no alarm",
		"a loaded document declares no $schema or a draft-07 one (cross-draft referencing is outside the property)")
	rapid.Check(t, watched("C02", propC02(rec)))
}

// propC02 is the property body, shared by TestC02 (rapid) and FuzzC02 (native fuzzing over
// rapid's bit stream).
func propC02(rec *ev.Recorder) func(t *rapid.T) {
	return func(t *rapid.T) {
		var c *c02Case
		switch rapid.IntRange(0, 11).Draw(t, "family") {
		case 10, 11:
			c = genC02Differ(t)
		case 0, 1, 2, 3:
			c = &c02Case{Family: "doc"}
			c.Root = sgen.Draw(t, sgen.Opts{Draft: refmodel.D7, MaxDepth: 3})
			c.Instances = sgen.Instances(t, c.Root, 4)
		case 4, 5, 6:
			c = genC02Remote(t)
			c.Instances = sgen.Instances(t, c.Root, 3)
			// and instances aimed at the remote documents
			for _, k := range sortedKeys(c.Docs) {
				c.Instances = append(c.Instances, sgen.Instances(t, c.Docs[k], 1)...)
				break
			}
		default:
			c = &c02Case{Family: "config"}
			c.Root = sgen.Draw(t, sgen.Opts{Draft: refmodel.D7, MaxDepth: 3, CommonOnly: true, NoMeta: true})
			c.Instances = sgen.Instances(t, c.Root, 4)
			c.Configs = []string{"", refmodel.URI2020, refmodel.URI7, refmodel.URI7Sec,
				rapid.SampledFrom(unsupportedSchemas).Draw(t, "unsup1"), rapid.SampledFrom(unsupportedSchemas).Draw(t, "unsup2")}
		}
		all := []*jv.V{c.Root}
		for _, k := range sortedKeys(c.Docs) {
			all = append(all, c.Docs[k])
		}
		for _, d := range all {
			stripUnsafeMultipleOf(d, c.Instances)
		}
		rec.Class("family:" + c.Family)
		fl := checkC02(c, rec)
		if isHarnessFailure(fl) {
			rec.Inconclusive("generator-or-model-error: " + fl.Msg)
			rec.Flush()
			t.Fatalf("%s", fl.Msg)
		}
		if fl != nil {
			report(t, rec, c, fl)
		}
		rec.Case()
	}
}

func init() {
	replayers["C02"] = func(raw json.RawMessage) *failure {
		var c c02Case
		if err := json.Unmarshal(raw, &c); err != nil {
			return failf("REPLAY-HARNESS-ERROR: %v", err)
		}
		fixNils(c.Instances)
		fl := checkC02(&c, nil)
		if isHarnessFailure(fl) {
			return failf("REPLAY-HARNESS-ERROR: %s", fl.Msg)
		}
		return fl
	}
}
