// Package sstruct generates jsonschema.Schema *struct values* (not documents). A value is
// described by a serialisable Spec (so cases can be replayed); the table of fields is
// obtained by reflection over the exported type, so new fields are covered automatically
// (an unknown field type makes the generator panic, i.e. the harness fails loudly).
package sstruct

import (
	"encoding/json"
	"fmt"
	"math"
	"reflect"
	"sort"

	"github.com/google/jsonschema-go/jsonschema"
	"pgregory.net/rapid"

	"verif/jv"
)

// Spec describes one Schema value. Fields maps a Go field name to its content; an absent
// entry means the zero value (nil).
type Spec struct {
	ID     int               `json:"id"`              // unique per node (for aliasing)
	Alias  int               `json:"alias,omitempty"` // >0: this position holds the very same *Schema as node <alias>
	IsNil  bool              `json:"nil,omitempty"`   // a nil *Schema (only inside slices/maps; C10)
	Fields map[string]*Field `json:"fields,omitempty"`
}

// Field is the content of one struct field. Exactly one group is meaningful, chosen by the
// field's Go type.
type Field struct {
	Empty   bool                `json:"empty,omitempty"` // non-nil but empty slice/map
	Str     string              `json:"str,omitempty"`
	Bool    bool                `json:"bool,omitempty"`
	Num     *float64            `json:"num,omitempty"`
	NumSpec string              `json:"num_special,omitempty"` // nan | +inf | -inf: a float no JSON text denotes (wild mode)
	Int     *int                `json:"int,omitempty"`
	Raw     string              `json:"raw,omitempty"`
	Any     *jv.V               `json:"any,omitempty"`     // *any (Const): pointer to this value
	AnyNull bool                `json:"anynull,omitempty"` // *any pointing to nil
	Anys    []*jv.V             `json:"anys,omitempty"`
	AnyMap  map[string]*jv.V    `json:"anymap,omitempty"`
	Strs    []string            `json:"strs,omitempty"`
	StrsMap map[string][]string `json:"strsmap,omitempty"`
	BoolMap map[string]bool     `json:"boolmap,omitempty"`
	Sub     *Spec               `json:"sub,omitempty"`
	Subs    []*Spec             `json:"subs,omitempty"`
	SubMap  map[string]*Spec    `json:"submap,omitempty"`
}

var schemaT = reflect.TypeFor[jsonschema.Schema]()

// FieldNames lists the exported fields of jsonschema.Schema in declaration order.
func FieldNames() []string {
	var out []string
	for i := 0; i < schemaT.NumField(); i++ {
		if f := schemaT.Field(i); f.IsExported() {
			out = append(out, f.Name)
		}
	}
	return out
}

// SchemaFields lists the fields that hold subschemas (by reflection).
func SchemaFields() []string {
	var out []string
	for i := 0; i < schemaT.NumField(); i++ {
		f := schemaT.Field(i)
		switch f.Type {
		case reflect.TypeFor[*jsonschema.Schema](), reflect.TypeFor[[]*jsonschema.Schema](), reflect.TypeFor[map[string]*jsonschema.Schema]():
			out = append(out, f.Name)
		}
	}
	return out
}

// Build constructs the Schema graph described by sp.
func Build(sp *Spec) *jsonschema.Schema {
	b := &builder{byID: map[int]*jsonschema.Schema{}}
	return b.build(sp)
}

type builder struct {
	byID map[int]*jsonschema.Schema
}

func (b *builder) build(sp *Spec) *jsonschema.Schema {
	if sp == nil || sp.IsNil {
		return nil
	}
	if sp.Alias > 0 {
		if s, ok := b.byID[sp.Alias]; ok {
			return s
		}
		return &jsonschema.Schema{}
	}
	s := &jsonschema.Schema{}
	b.byID[sp.ID] = s
	v := reflect.ValueOf(s).Elem()
	names := make([]string, 0, len(sp.Fields))
	for n := range sp.Fields {
		names = append(names, n)
	}
	sort.Strings(names)
	for _, name := range names {
		f := sp.Fields[name]
		fv := v.FieldByName(name)
		if !fv.IsValid() || f == nil {
			continue
		}
		switch fv.Interface().(type) {
		case string:
			fv.SetString(f.Str)
		case bool:
			fv.SetBool(f.Bool)
		case *float64:
			if f.Num != nil {
				x := *f.Num
				fv.Set(reflect.ValueOf(&x))
			}
			switch f.NumSpec {
			case "nan":
				x := math.NaN()
				fv.Set(reflect.ValueOf(&x))
			case "+inf":
				x := math.Inf(1)
				fv.Set(reflect.ValueOf(&x))
			case "-inf":
				x := math.Inf(-1)
				fv.Set(reflect.ValueOf(&x))
			}
		case *int:
			if f.Int != nil {
				x := *f.Int
				fv.Set(reflect.ValueOf(&x))
			}
		case json.RawMessage:
			if f.Raw != "" {
				fv.Set(reflect.ValueOf(json.RawMessage(f.Raw)))
			}
		case *any:
			if f.AnyNull {
				fv.Set(reflect.ValueOf(new(any)))
			} else if f.Any != nil {
				x := f.Any.ToAny()
				fv.Set(reflect.ValueOf(&x))
			}
		case []any:
			if f.Empty {
				fv.Set(reflect.ValueOf([]any{}))
			} else if f.Anys != nil {
				xs := make([]any, len(f.Anys))
				for i, e := range f.Anys {
					xs[i] = e.ToAny()
				}
				fv.Set(reflect.ValueOf(xs))
			}
		case map[string]any:
			if f.Empty {
				fv.Set(reflect.ValueOf(map[string]any{}))
			} else if f.AnyMap != nil {
				m := map[string]any{}
				for k, e := range f.AnyMap {
					m[k] = e.ToAny()
				}
				fv.Set(reflect.ValueOf(m))
			}
		case []string:
			if f.Empty {
				fv.Set(reflect.ValueOf([]string{}))
			} else if f.Strs != nil {
				fv.Set(reflect.ValueOf(append([]string{}, f.Strs...)))
			}
		case map[string][]string:
			if f.Empty {
				fv.Set(reflect.ValueOf(map[string][]string{}))
			} else if f.StrsMap != nil {
				m := map[string][]string{}
				for k, e := range f.StrsMap {
					if e == nil {
						m[k] = nil
					} else {
						m[k] = append([]string{}, e...)
					}
				}
				fv.Set(reflect.ValueOf(m))
			}
		case map[string]bool:
			if f.Empty {
				fv.Set(reflect.ValueOf(map[string]bool{}))
			} else if f.BoolMap != nil {
				m := map[string]bool{}
				for k, e := range f.BoolMap {
					m[k] = e
				}
				fv.Set(reflect.ValueOf(m))
			}
		case *jsonschema.Schema:
			if f.Sub != nil {
				fv.Set(reflect.ValueOf(b.build(f.Sub)))
			}
		case []*jsonschema.Schema:
			if f.Empty {
				fv.Set(reflect.ValueOf([]*jsonschema.Schema{}))
			} else if f.Subs != nil {
				xs := make([]*jsonschema.Schema, len(f.Subs))
				for i, e := range f.Subs {
					xs[i] = b.build(e)
				}
				fv.Set(reflect.ValueOf(xs))
			}
		case map[string]*jsonschema.Schema:
			if f.Empty {
				fv.Set(reflect.ValueOf(map[string]*jsonschema.Schema{}))
			} else if f.SubMap != nil {
				m := map[string]*jsonschema.Schema{}
				ks := make([]string, 0, len(f.SubMap))
				for k := range f.SubMap {
					ks = append(ks, k)
				}
				sort.Strings(ks)
				for _, k := range ks {
					m[k] = b.build(f.SubMap[k])
				}
				fv.Set(reflect.ValueOf(m))
			}
		default:
			panic(fmt.Sprintf("sstruct: field %s has a type the harness does not know: %s", name, fv.Type()))
		}
	}
	return s
}

// ---------------------------------------------------------------------------------------------
// generation

// Opts controls generation.
type Opts struct {
	MaxDepth int
	// Wild: ignore the documented exclusivity rules, allow malformed regexps/URIs, nil
	// children, shared and cyclic pointers (C10's domain).
	Wild bool
	// NoRefs: never set Ref/DynamicRef/ID/Anchor/DynamicAnchor/Schema/Vocabulary (C20: reference-free).
	NoRefs bool
	// Density: probability (in 1/16ths) that a field is populated.
	Density int
}

type gen struct {
	t      *rapid.T
	o      Opts
	nextID int
	ids    []int // ids of nodes built so far (alias candidates)
	anch   int
}

var (
	typeNames  = []string{"null", "boolean", "integer", "number", "string", "array", "object"}
	goodRegexp = []string{"^a", "b$", "^[ab]+$", "a|c", "^.{2}$", "[0-9]"}
	badRegexp  = []string{"(", "[a", "a**", "\\", "(?P<n", "a{2,1}"}
	keyNames   = []string{"a", "b", "c", "", "a/b", "~", "0", "é", "\x01", "del\x7f", "tab\t", "q\"q"}
	kwLike     = map[string]bool{}
)

func init() {
	for i := 0; i < schemaT.NumField(); i++ {
		f := schemaT.Field(i)
		tag := f.Tag.Get("json")
		for j := 0; j < len(tag); j++ {
			if tag[j] == ',' {
				tag = tag[:j]
				break
			}
		}
		if tag != "" && tag != "-" {
			kwLike[tag] = true
		}
	}
	for _, k := range []string{"type", "items", "dependencies"} {
		kwLike[k] = true
	}
}

// Gen draws a Spec.
func Gen(t *rapid.T, o Opts) *Spec {
	if o.Density == 0 {
		o.Density = 3
	}
	g := &gen{t: t, o: o}
	return g.node(o.MaxDepth)
}

func (g *gen) n(k int, label string) int { return rapid.IntRange(0, k-1).Draw(g.t, label) }

func (g *gen) val(depth int) *jv.V {
	return jv.Gen(jv.Opts{MaxDepth: depth, MaxLen: 3}).Draw(g.t, "val")
}

func (g *gen) key() string { return rapid.SampledFrom(keyNames).Draw(g.t, "key") }

func (g *gen) strs(maxN int, dupOK bool) []string {
	n := g.n(maxN+1, "nstrs")
	out := []string{}
	seen := map[string]bool{}
	for i := 0; i < n; i++ {
		k := g.key()
		if seen[k] && !dupOK {
			continue
		}
		seen[k] = true
		out = append(out, k)
	}
	return out
}

func (g *gen) child(depth int) *Spec {
	if g.o.Wild {
		switch g.n(12, "wildchild") {
		case 0:
			return &Spec{IsNil: true}
		case 1:
			if len(g.ids) > 0 {
				return &Spec{Alias: g.ids[g.n(len(g.ids), "alias")]}
			}
		}
	}
	return g.node(depth)
}

func (g *gen) node(depth int) *Spec {
	g.nextID++
	sp := &Spec{ID: g.nextID, Fields: map[string]*Field{}}
	g.ids = append(g.ids, sp.ID)
	has := func(name string) bool { _, ok := sp.Fields[name]; return ok }
	for i := 0; i < schemaT.NumField(); i++ {
		sf := schemaT.Field(i)
		if !sf.IsExported() {
			continue
		}
		name := sf.Name
		// thinner at every level below the root, or trees grow exponentially
		dens := g.o.Density >> (g.o.MaxDepth - depth)
		if dens < 1 {
			dens = 1
		}
		if g.n(16, "pop-"+name) >= dens {
			continue
		}
		if !g.o.Wild {
			// documented exclusivity rules
			switch {
			case name == "Types" && has("Type"), name == "ItemsArray" && has("Items"), name == "Definitions" && has("Defs"):
				continue
			}
		}
		if g.o.NoRefs {
			switch name {
			case "ID", "Schema", "Ref", "DynamicRef", "Anchor", "DynamicAnchor", "Vocabulary":
				continue
			}
		}
		f := &Field{}
		switch sf.Type {
		case reflect.TypeFor[string]():
			f.Str = g.str(name)
			if f.Str == "" {
				continue
			}
		case reflect.TypeFor[bool]():
			f.Bool = true
		case reflect.TypeFor[*float64]():
			x, _ := jv.GenNum().Draw(g.t, "num").N.Float64()
			if name == "MultipleOf" && !g.o.Wild {
				x = []float64{1, 2, 0.5, 2.5, 0.25, 3}[g.n(6, "mult")]
			}
			f.Num = &x
			if g.o.Wild && g.n(8, "nonfinite") == 0 {
				f.Num = nil
				f.NumSpec = []string{"nan", "+inf", "-inf"}[g.n(3, "nonfinitekind")]
			}
		case reflect.TypeFor[*int]():
			x := g.n(5, "int")
			if g.o.Wild && g.n(6, "negint") == 0 {
				x = -1 - g.n(3, "neg")
			}
			if g.n(10, "bigint") == 0 {
				x = 2147483647
			}
			f.Int = &x
		case reflect.TypeFor[json.RawMessage]():
			f.Raw = g.val(2).JSON()
			if g.o.Wild && g.n(8, "badraw") == 0 {
				f.Raw = "{not json"
			}
		case reflect.TypeFor[*any]():
			if g.n(4, "constnull") == 0 {
				f.AnyNull = true
			} else {
				f.Any = g.val(2)
				if f.Any.K == jv.Null {
					f.Any, f.AnyNull = nil, true
				}
			}
		case reflect.TypeFor[[]any]():
			if g.n(5, "emptyanys") == 0 {
				f.Empty = true
			} else {
				k := 1 + g.n(3, "nanys")
				for j := 0; j < k; j++ {
					f.Anys = append(f.Anys, g.val(1))
				}
			}
		case reflect.TypeFor[map[string]any](): // Extra
			if g.n(5, "emptyextra") == 0 {
				f.Empty = true
			} else {
				f.AnyMap = map[string]*jv.V{}
				for j, k := 0, 1+g.n(2, "nextra"); j < k; j++ {
					key := rapid.SampledFrom([]string{"x-a", "x-b", "Type", "TITLE", "unknown", "$Ref", "Extra", "x c"}).Draw(g.t, "extrakey")
					if g.o.Wild && g.n(6, "kwextra") == 0 {
						key = rapid.SampledFrom([]string{"type", "title", "items", "$ref", "properties"}).Draw(g.t, "kwkey")
					}
					f.AnyMap[key] = g.val(1)
				}
			}
		case reflect.TypeFor[[]string]():
			if g.n(5, "emptystrs") == 0 {
				f.Empty = true
			} else {
				switch name {
				case "Types":
					k := 1 + g.n(3, "ntypes")
					seen := map[string]bool{}
					for j := 0; j < k; j++ {
						ty := rapid.SampledFrom(typeNames).Draw(g.t, "ty")
						if !seen[ty] {
							seen[ty] = true
							f.Strs = append(f.Strs, ty)
						}
					}
				case "PropertyOrder":
					f.Strs = g.strs(4, g.o.Wild)
				default:
					f.Strs = g.strs(3, true)
				}
				if f.Strs == nil {
					f.Strs = []string{}
					f.Empty = true
				}
			}
		case reflect.TypeFor[map[string][]string]():
			if g.n(5, "emptystrsmap") == 0 {
				f.Empty = true
			} else {
				f.StrsMap = map[string][]string{}
				for j, k := 0, 1+g.n(2, "nsm"); j < k; j++ {
					f.StrsMap[g.key()] = g.strs(2, true)
				}
			}
		case reflect.TypeFor[map[string]bool](): // Vocabulary
			if !g.o.Wild {
				// only meaningful (and resolvable) next to the 2020-12 $schema on the same object
				continue
			}
			if g.n(4, "emptyvocab") == 0 {
				f.Empty = true
			} else {
				f.BoolMap = map[string]bool{"https://json-schema.org/draft/2020-12/vocab/core": true, "x": false}
			}
		case reflect.TypeFor[*jsonschema.Schema]():
			if depth <= 0 {
				f.Sub = g.leaf()
			} else {
				f.Sub = g.child(depth - 1)
			}
		case reflect.TypeFor[[]*jsonschema.Schema]():
			if g.n(5, "emptysubs") == 0 {
				f.Empty = true
			} else {
				for j, k := 0, 1+g.n(3, "nsubs"); j < k; j++ {
					if depth <= 0 {
						f.Subs = append(f.Subs, g.leaf())
					} else {
						f.Subs = append(f.Subs, g.child(depth-1))
					}
				}
			}
		case reflect.TypeFor[map[string]*jsonschema.Schema]():
			if g.n(5, "emptysubmap") == 0 {
				f.Empty = true
			} else {
				f.SubMap = map[string]*Spec{}
				for j, k := 0, 1+g.n(3, "nsubmap"); j < k; j++ {
					key := g.key()
					if name == "PatternProperties" {
						key = rapid.SampledFrom(goodRegexp).Draw(g.t, "ppkey")
						if g.o.Wild && g.n(5, "badpp") == 0 {
							key = rapid.SampledFrom(badRegexp).Draw(g.t, "badppkey")
						}
					}
					if depth <= 0 {
						f.SubMap[key] = g.leaf()
					} else {
						f.SubMap[key] = g.child(depth - 1)
					}
				}
			}
		default:
			panic(fmt.Sprintf("sstruct: field %s has a type the harness does not know: %s", name, sf.Type))
		}
		sp.Fields[name] = f
	}
	if !g.o.Wild {
		// disjoint dependency maps
		if ds, dst := sp.Fields["DependencySchemas"], sp.Fields["DependencyStrings"]; ds != nil && dst != nil {
			for k := range ds.SubMap {
				delete(dst.StrsMap, k)
			}
		}
	}
	return sp
}

func (g *gen) leaf() *Spec {
	g.nextID++
	sp := &Spec{ID: g.nextID, Fields: map[string]*Field{}}
	g.ids = append(g.ids, sp.ID)
	switch g.n(5, "leaf") {
	case 0: // empty schema (true)
	case 1: // false
		g.nextID++
		sp.Fields["Not"] = &Field{Sub: &Spec{ID: g.nextID, Fields: map[string]*Field{}}}
	case 2:
		sp.Fields["Type"] = &Field{Str: rapid.SampledFrom(typeNames).Draw(g.t, "leaftype")}
	case 3:
		x := 1.0
		sp.Fields["Minimum"] = &Field{Num: &x}
	default:
		sp.Fields["Const"] = &Field{Any: jv.NumV("1")}
	}
	return sp
}

func (g *gen) str(name string) string {
	switch name {
	case "Type":
		if g.o.Wild && g.n(6, "badtype") == 0 {
			return "nonsense"
		}
		return rapid.SampledFrom(typeNames).Draw(g.t, "type")
	case "Pattern":
		if g.o.Wild && g.n(4, "badre") == 0 {
			return rapid.SampledFrom(badRegexp).Draw(g.t, "badpat")
		}
		return rapid.SampledFrom(goodRegexp).Draw(g.t, "pat")
	case "ID":
		if g.o.Wild {
			return rapid.SampledFrom([]string{"http://a.test/x.json", "sub/y.json", "#frag", "http://a.test/x.json#f", "::bad", "urn:x:y", "%zz", "http://[::1"}).Draw(g.t, "id")
		}
		g.anch++
		return fmt.Sprintf("http://id.test/r%d.json", g.anch)
	case "Schema":
		if g.o.Wild {
			return rapid.SampledFrom([]string{"https://json-schema.org/draft/2020-12/schema", "http://json-schema.org/draft-07/schema#", "garbage", "https://json-schema.org/draft/2019-09/schema"}).Draw(g.t, "schema")
		}
		return "" // a $schema below the root has no defined meaning here
	case "Ref", "DynamicRef":
		if g.o.Wild {
			return rapid.SampledFrom([]string{"#", "#/$defs/a", "#/properties/a", "#nope", "other.json", "http://a.test/x.json", "#/allOf/0", "#/not", "::bad", "#/items/-", "#/allOf/01"}).Draw(g.t, "ref")
		}
		return "" // valid Specs are reference-free (references are C03/C06/C17's)
	case "Anchor", "DynamicAnchor":
		if g.o.Wild {
			return rapid.SampledFrom([]string{"a", "b", "a", "x/y", ""}).Draw(g.t, "anchor")
		}
		g.anch++
		return fmt.Sprintf("n%d", g.anch)
	default:
		return rapid.SampledFrom([]string{"t", "d", "x y", "é", "email", "base64"}).Draw(g.t, "s")
	}
}

// Walk visits every non-alias, non-nil node of the spec tree.
func (sp *Spec) Walk(f func(*Spec)) {
	if sp == nil || sp.IsNil || sp.Alias > 0 {
		return
	}
	f(sp)
	names := make([]string, 0, len(sp.Fields))
	for n := range sp.Fields {
		names = append(names, n)
	}
	sort.Strings(names)
	for _, n := range names {
		fl := sp.Fields[n]
		if fl.Sub != nil {
			fl.Sub.Walk(f)
		}
		for _, s := range fl.Subs {
			s.Walk(f)
		}
		ks := make([]string, 0, len(fl.SubMap))
		for k := range fl.SubMap {
			ks = append(ks, k)
		}
		sort.Strings(ks)
		for _, k := range ks {
			fl.SubMap[k].Walk(f)
		}
	}
}
