// Package refmodel is the harness's reference evaluator for JSON Schema draft 2020-12 and
// draft-07: an independent implementation shaped like the specification, working on raw JSON
// (jv.V trees), with its own indexer (resources, anchors, base URIs), RFC 3986 resolver,
// RFC 6901 pointer walk, explicit evaluated-property / evaluated-item sets and an explicit
// dynamic scope. It never touches jsonschema.Schema.
//
// Documented deviations of the library are built in: format / content* never assert, patterns
// are Go regexp (RE2) searches.
package refmodel

import (
	"errors"
	"fmt"
	"math/big"
	"regexp"
	"sort"
	"strconv"
	"strings"
	"unicode/utf8"
	"unsafe"

	"verif/jv"
)

type Draft int

const (
	D2020 Draft = iota
	D7
)

const (
	URI2020 = "https://json-schema.org/draft/2020-12/schema"
	URI7    = "http://json-schema.org/draft-07/schema#"
	URI7Sec = "https://json-schema.org/draft-07/schema#"
)

// DraftOf maps a $schema value to a draft; ok=false when unsupported.
func DraftOf(schemaURI string) (Draft, bool) {
	switch schemaURI {
	case "", URI2020:
		return D2020, true
	case URI7, URI7Sec:
		return D7, true
	}
	return D2020, false
}

// Universe is a set of documents addressed by retrieval URI.
type Universe struct {
	Docs    map[string]*jv.V // retrieval URI (no fragment) -> document
	Root    *jv.V
	RootURI string // retrieval / base URI of the root ("" = none)
}

// Node is one schema location.
type Node struct {
	V        *jv.V
	Resource *Node  // root of the enclosing schema resource
	Base     URI    // base URI of the enclosing resource (fragment-less)
	Ptr      string // JSON pointer from the document root
	DocURI   string
	anchors  map[string]anchor // only on resource roots
}

type anchor struct {
	node    *Node
	dynamic bool
}

// Model is an indexed universe.
type Model struct {
	U      *Universe
	Draft  Draft
	nodes  map[*jv.V]*Node
	byURI  map[string]*Node // absolute (or empty-base) fragment-less URI -> resource root
	loaded map[string]bool  // retrieval URIs of documents indexed so far
	// Loads lists the retrieval URIs the model had to fetch, in order.
	Loads []string
	// CanLoad, if non-nil, restricts which documents may be loaded (fault plans).
	CanLoad func(uri string) bool
	root    *Node
	regexps map[string]*regexp.Regexp
	// Trace, if non-nil, receives every schema node evaluated against some instance.
	Trace func(n *Node)

	// Per top-level evaluation: results are memoised by (schema node, instance node, dynamic
	// scope), so that a schema whose in-place applicators fan out over shared definitions (a DAG
	// with exponentially many paths) is evaluated in time proportional to its size. NaiveCost is
	// the number of subschema evaluations an evaluator WITHOUT such a memo performs for the last
	// top-level call (what the library does); callers use it to leave out cases that would take
	// the library minutes.
	NaiveCost float64
	depth     int
	memo      map[memoKey]memoEntry
	work      int
}

type memoKey struct {
	n     *Node
	inst  *jv.V
	scope string
}

type memoEntry struct {
	r    Result
	cost float64
}

// ErrBudget: the evaluation did not finish within the work budget (even with the memo).
var ErrBudget = errors.New("model: evaluation budget exceeded")

const workBudget = 4_000_000

func scopeKey(scope []*Node) string {
	if len(scope) == 0 {
		return ""
	}
	b := make([]byte, 0, len(scope)*8)
	for _, n := range scope {
		p := uintptr(unsafe.Pointer(n))
		for i := 0; i < 8; i++ {
			b = append(b, byte(p>>(8*i)))
		}
	}
	return string(b)
}

// keyword tables (union of both drafts: a location is a subschema location if the keyword
// holds subschemas in either draft)
var (
	singleKW = map[string]bool{
		"additionalProperties": true, "propertyNames": true, "unevaluatedProperties": true,
		"unevaluatedItems": true, "contains": true, "not": true, "if": true, "then": true, "else": true,
		"contentSchema": true, "additionalItems": true,
	}
	arrayKW = map[string]bool{"allOf": true, "anyOf": true, "oneOf": true, "prefixItems": true}
	mapKW   = map[string]bool{"$defs": true, "definitions": true, "properties": true, "patternProperties": true, "dependentSchemas": true}
)

func isSchema(v *jv.V) bool { return v != nil && (v.K == jv.Obj || v.K == jv.Bool) }

// New indexes the root document.
func New(u *Universe, d Draft) (*Model, error) {
	m := &Model{U: u, Draft: d, nodes: map[*jv.V]*Node{}, byURI: map[string]*Node{}, loaded: map[string]bool{}, regexps: map[string]*regexp.Regexp{}}
	base := ParseURI(u.RootURI)
	if base.HasFrag {
		return nil, fmt.Errorf("base URI with fragment")
	}
	n, err := m.indexDoc(u.Root, base, u.RootURI)
	if err != nil {
		return nil, err
	}
	m.root = n
	return m, nil
}

func (m *Model) Root() *Node { return m.root }

// NodeOf returns the indexed node for a raw schema value.
func (m *Model) NodeOf(v *jv.V) *Node { return m.nodes[v] }

func (m *Model) indexDoc(doc *jv.V, retrieval URI, docURI string) (*Node, error) {
	if !isSchema(doc) {
		return nil, fmt.Errorf("document %q is not a schema", docURI)
	}
	root := &Node{V: doc, Base: retrieval, Ptr: "", DocURI: docURI, anchors: map[string]anchor{}}
	root.Resource = root
	m.nodes[doc] = root
	m.byURI[retrieval.String()] = root
	if err := m.indexNode(root, true); err != nil {
		return nil, err
	}
	return root, nil
}

// indexNode processes identifiers of n (whose Resource/Base are preset to the parent's) and
// descends into its subschemas.
func (m *Model) indexNode(n *Node, isDocRoot bool) error {
	v := n.V
	if v.K != jv.Obj {
		return nil
	}
	if id := v.Get("$id"); id != nil && id.K == jv.Str && id.S != "" {
		ignore := m.Draft == D7 && v.Has("$ref")
		if !ignore {
			idu := ParseURI(id.S)
			switch {
			case m.Draft == D7 && idu.HasFrag && idu.Fragment != "":
				// draft-07: a fragment-only $id is a plain-name anchor
				name := strings.TrimPrefix(id.S, "#")
				if err := m.setAnchor(n.Resource, name, n, false); err != nil {
					return err
				}
			case m.Draft == D2020 && idu.HasFrag && idu.Fragment != "":
				return fmt.Errorf("$id with fragment")
			default:
				nb := Resolve(n.Base, idu).WithoutFragment()
				if !nb.IsAbs() {
					return fmt.Errorf("$id %q does not resolve to an absolute URI", id.S)
				}
				n.Base = nb
				n.Resource = n
				if n.anchors == nil {
					n.anchors = map[string]anchor{}
				}
				m.byURI[nb.String()] = n
			}
		}
	}
	if m.Draft == D2020 {
		if a := v.Get("$anchor"); a != nil && a.K == jv.Str && a.S != "" {
			if err := m.setAnchor(n.Resource, a.S, n, false); err != nil {
				return err
			}
		}
		if a := v.Get("$dynamicAnchor"); a != nil && a.K == jv.Str && a.S != "" {
			if err := m.setAnchor(n.Resource, a.S, n, true); err != nil {
				return err
			}
		}
	}
	for _, mem := range v.O {
		for _, c := range children(mem.K, mem.V) {
			cn := &Node{V: c.v, Resource: n.Resource, Base: n.Base, Ptr: n.Ptr + c.ptr, DocURI: n.DocURI}
			if _, dup := m.nodes[c.v]; dup {
				return fmt.Errorf("schema value shared between two locations")
			}
			m.nodes[c.v] = cn
			if err := m.indexNode(cn, false); err != nil {
				return err
			}
		}
	}
	return nil
}

func (m *Model) setAnchor(res *Node, name string, n *Node, dynamic bool) error {
	if _, dup := res.anchors[name]; dup {
		return fmt.Errorf("duplicate anchor %q", name)
	}
	res.anchors[name] = anchor{n, dynamic}
	return nil
}

type child struct {
	v   *jv.V
	ptr string
}

// EscapePtr escapes one JSON Pointer reference token (RFC 6901 section 3).
func EscapePtr(s string) string {
	s = strings.ReplaceAll(s, "~", "~0")
	return strings.ReplaceAll(s, "/", "~1")
}

// children lists the subschemas held by keyword kw with value val.
func children(kw string, val *jv.V) []child {
	var out []child
	switch {
	case singleKW[kw]:
		if isSchema(val) {
			out = append(out, child{val, "/" + kw})
		}
	case kw == "items":
		if isSchema(val) {
			out = append(out, child{val, "/items"})
		} else if val.K == jv.Arr {
			for i, e := range val.A {
				if isSchema(e) {
					out = append(out, child{e, "/items/" + strconv.Itoa(i)})
				}
			}
		}
	case arrayKW[kw]:
		if val.K == jv.Arr {
			for i, e := range val.A {
				if isSchema(e) {
					out = append(out, child{e, "/" + kw + "/" + strconv.Itoa(i)})
				}
			}
		}
	case mapKW[kw]:
		if val.K == jv.Obj {
			for _, mm := range val.O {
				if isSchema(mm.V) {
					out = append(out, child{mm.V, "/" + EscapePtr(kw) + "/" + EscapePtr(mm.K)})
				}
			}
		}
	case kw == "dependencies":
		if val.K == jv.Obj {
			for _, mm := range val.O {
				if isSchema(mm.V) { // arrays are string lists
					out = append(out, child{mm.V, "/dependencies/" + EscapePtr(mm.K)})
				}
			}
		}
	}
	return out
}

// ---------------------------------------------------------------------------------------------
// reference resolution

// ErrDangling is returned when a reference designates no subschema.
type ErrDangling struct{ Why string }

func (e *ErrDangling) Error() string { return "dangling reference: " + e.Why }

func dangling(format string, args ...any) error { return &ErrDangling{fmt.Sprintf(format, args...)} }

// ResolveRef resolves the reference string ref appearing in node n. It returns the target
// node and, when the fragment is a plain name created by $dynamicAnchor, that name.
func (m *Model) ResolveRef(n *Node, ref string) (*Node, string, error) {
	ru := Resolve(n.Base, ParseURI(ref))
	fragless := ru.WithoutFragment().String()
	res := m.byURI[fragless]
	if res == nil {
		// remote: load it (at most once)
		if !m.loaded[fragless] {
			doc, ok := m.U.Docs[fragless]
			if !ok || (m.CanLoad != nil && !m.CanLoad(fragless)) {
				return nil, "", dangling("no document %q", fragless)
			}
			m.loaded[fragless] = true
			m.Loads = append(m.Loads, fragless)
			if existing := m.nodes[doc]; existing != nil {
				// the same document reached under another of its URIs (retrieval URI vs canonical $id)
				m.byURI[fragless] = existing
				res = existing
			} else {
				rn, err := m.indexDoc(doc, ParseURI(fragless), fragless)
				if err != nil {
					return nil, "", dangling("document %q: %v", fragless, err)
				}
				res = rn
			}
		} else {
			res = m.byURI[fragless]
			if res == nil {
				return nil, "", dangling("document %q failed to load before", fragless)
			}
		}
	}
	frag := ""
	if ru.HasFrag {
		f, ok := PercentDecode(ru.Fragment)
		if !ok {
			return nil, "", dangling("bad percent-encoding in fragment %q", ru.Fragment)
		}
		frag = f
	}
	if frag == "" {
		return res, "", nil
	}
	if strings.HasPrefix(frag, "/") {
		t, err := m.walkPointer(res, frag)
		return t, "", err
	}
	a, ok := res.anchors[frag]
	if !ok {
		return nil, "", dangling("no anchor %q in %q", frag, fragless)
	}
	if a.dynamic {
		return a.node, frag, nil
	}
	return a.node, "", nil
}

// walkPointer walks an RFC 6901 pointer from a resource root through subschema locations
// only. A pointer that leaves the schema structure designates no subschema.
func (m *Model) walkPointer(from *Node, ptr string) (*Node, error) {
	segs := strings.Split(ptr[1:], "/")
	for i, s := range segs {
		// RFC 6901: "~1" -> "/" first, then "~0" -> "~"; any other "~" is an error
		var sb strings.Builder
		for j := 0; j < len(s); j++ {
			if s[j] != '~' {
				sb.WriteByte(s[j])
				continue
			}
			if j+1 >= len(s) {
				return nil, dangling("bad escape in %q", ptr)
			}
			switch s[j+1] {
			case '0':
				sb.WriteByte('~')
			case '1':
				sb.WriteByte('/')
			default:
				return nil, dangling("bad escape in %q", ptr)
			}
			j++
		}
		segs[i] = sb.String()
	}
	cur := from.V
	i := 0
	for i < len(segs) {
		if cur.K != jv.Obj {
			return nil, dangling("pointer %q passes through a boolean schema", ptr)
		}
		kw := segs[i]
		val := cur.Get(kw)
		if val == nil {
			return nil, dangling("pointer %q: no keyword %q", ptr, kw)
		}
		i++
		switch {
		case singleKW[kw] || (kw == "items" && isSchema(val)):
			if !isSchema(val) {
				return nil, dangling("pointer %q: %q holds no schema", ptr, kw)
			}
			cur = val
		case arrayKW[kw] || kw == "items":
			if val.K != jv.Arr || i >= len(segs) {
				return nil, dangling("pointer %q: stops at array keyword %q", ptr, kw)
			}
			idx, ok := arrayIndex(segs[i])
			if !ok || idx >= len(val.A) {
				return nil, dangling("pointer %q: bad index %q", ptr, segs[i])
			}
			i++
			cur = val.A[idx]
		case mapKW[kw] || kw == "dependencies":
			if val.K != jv.Obj || i >= len(segs) {
				return nil, dangling("pointer %q: stops at map keyword %q", ptr, kw)
			}
			e := val.Get(segs[i])
			if e == nil {
				return nil, dangling("pointer %q: no member %q", ptr, segs[i])
			}
			i++
			cur = e
		default:
			return nil, dangling("pointer %q: %q holds no subschemas", ptr, kw)
		}
		if !isSchema(cur) {
			return nil, dangling("pointer %q does not end at a schema", ptr)
		}
	}
	n := m.nodes[cur]
	if n == nil {
		return nil, dangling("pointer %q: location not indexed", ptr)
	}
	return n, nil
}

// arrayIndex implements the RFC 6901 array-index grammar: "0" / ( %x31-39 *DIGIT ).
func arrayIndex(s string) (int, bool) {
	if s == "" || len(s) > 9 {
		return 0, false
	}
	if s == "0" {
		return 0, true
	}
	if s[0] < '1' || s[0] > '9' {
		return 0, false
	}
	n := 0
	for i := 0; i < len(s); i++ {
		if s[i] < '0' || s[i] > '9' {
			return 0, false
		}
		n = n*10 + int(s[i]-'0')
	}
	return n, true
}

// AllNodes returns every indexed node, in a deterministic order.
func (m *Model) AllNodes() []*Node {
	out := make([]*Node, 0, len(m.nodes))
	for _, n := range m.nodes {
		out = append(out, n)
	}
	sort.Slice(out, func(i, j int) bool {
		if out[i].DocURI != out[j].DocURI {
			return out[i].DocURI < out[j].DocURI
		}
		return out[i].Ptr < out[j].Ptr
	})
	return out
}

// ResolveEverything resolves every $ref/$dynamicRef of every document reachable from the
// root (loading documents as needed), the way an eager resolver does. It returns the first
// dangling reference, or nil.
func (m *Model) ResolveEverything() error {
	done := map[*Node]bool{}
	for {
		progress := false
		for _, n := range m.AllNodes() {
			if done[n] {
				continue
			}
			done[n] = true
			progress = true
			if n.V.K != jv.Obj {
				continue
			}
			for _, kw := range []string{"$ref", "$dynamicRef"} {
				if kw == "$dynamicRef" && m.Draft != D2020 {
					continue
				}
				if r := n.V.Get(kw); r != nil && r.K == jv.Str {
					if _, _, err := m.ResolveRef(n, r.S); err != nil {
						return fmt.Errorf("%s %s %q: %w", n.Ptr, kw, r.S, err)
					}
				}
			}
		}
		if !progress {
			return nil
		}
	}
}

// NamedURIs returns the fragment-less absolute URIs that the references of all indexed
// documents name (independent of the order in which documents were loaded or cached).
func (m *Model) NamedURIs() map[string]bool {
	out := map[string]bool{}
	for _, n := range m.AllNodes() {
		if n.V.K != jv.Obj {
			continue
		}
		for _, kw := range []string{"$ref", "$dynamicRef"} {
			if r := n.V.Get(kw); r != nil && r.K == jv.Str {
				out[Resolve(n.Base, ParseURI(r.S)).WithoutFragment().String()] = true
			}
		}
	}
	return out
}

// ---------------------------------------------------------------------------------------------
// evaluation

// Result of evaluating one schema against one instance location.
type Result struct {
	Valid bool
	Props map[string]bool // evaluated property names (nil when none)
	Items map[int]bool    // evaluated item indexes
}

func (r *Result) addProps(p map[string]bool) {
	if len(p) == 0 {
		return
	}
	if r.Props == nil {
		r.Props = map[string]bool{}
	}
	for k := range p {
		r.Props[k] = true
	}
}

func (r *Result) addItems(p map[int]bool) {
	if len(p) == 0 {
		return
	}
	if r.Items == nil {
		r.Items = map[int]bool{}
	}
	for k := range p {
		r.Items[k] = true
	}
}

func (r *Result) absorb(sub Result) {
	switch Variant {
	case VariantNoInPlaceAnnotations:
		return
	case VariantLeakyAnnotations:
		r.addProps(sub.Props)
		r.addItems(sub.Items)
		return
	}
	if sub.Valid {
		r.addProps(sub.Props)
		r.addItems(sub.Items)
	}
}

// Variant selects a deliberately WRONG evaluator. The variants are used only to classify
// cases: a case whose verdict differs between the specification and a wrong variant is one
// whose verdict depends on annotation flow (non-trivial for C07). Never used as an oracle.
var Variant = VariantSpec

const (
	VariantSpec = iota
	// in-place applicators contribute no annotations (unevaluated* behave like additional*/items)
	VariantNoInPlaceAnnotations
	// annotations of failed subschemas and of "not" leak to the parent
	VariantLeakyAnnotations
)

// Validate evaluates the root schema. An error means the model cannot decide (a dangling
// reference was met during evaluation).
func (m *Model) Validate(inst *jv.V) (bool, error) {
	r, err := m.Eval(m.root, inst, nil)
	return r.Valid, err
}

func (m *Model) re(p string) (*regexp.Regexp, error) {
	if r, ok := m.regexps[p]; ok {
		return r, nil
	}
	r, err := regexp.Compile(p)
	if err != nil {
		return nil, err
	}
	m.regexps[p] = r
	return r, nil
}

func typeMatches(t string, inst *jv.V) bool {
	switch t {
	case "null":
		return inst.K == jv.Null
	case "boolean":
		return inst.K == jv.Bool
	case "string":
		return inst.K == jv.Str
	case "array":
		return inst.K == jv.Arr
	case "object":
		return inst.K == jv.Obj
	case "number":
		return inst.K == jv.Num
	case "integer":
		return inst.K == jv.Num && inst.N.IsInt()
	}
	return false
}

func intKW(v *jv.V, kw string) (int, bool) {
	x := v.Get(kw)
	if x == nil || x.K != jv.Num || !x.N.IsInt() || !x.N.Num().IsInt64() {
		return 0, false
	}
	return int(x.N.Num().Int64()), true
}

// Eval evaluates schema node n against inst under the dynamic scope (outermost first).
func (m *Model) Eval(n *Node, inst *jv.V, scope []*Node) (Result, error) {
	if m.depth == 0 {
		m.memo, m.work, m.NaiveCost = map[memoKey]memoEntry{}, 0, 0
	}
	m.depth++
	defer func() { m.depth-- }()
	m.work++
	if m.work > workBudget || m.depth > 3000 {
		// (the depth bound catches an in-place reference cycle, which no generator emits on purpose
		// but a document read under another draft than it was written for may contain)
		return Result{}, ErrBudget
	}
	if m.Trace != nil {
		// tracing callers want every visit: no memo
		m.NaiveCost++
		return m.eval(n, inst, scope)
	}
	key := memoKey{n, inst, scopeKey(scope)}
	if e, ok := m.memo[key]; ok {
		m.NaiveCost += e.cost
		return e.r, nil
	}
	before := m.NaiveCost
	m.NaiveCost++
	r, err := m.eval(n, inst, scope)
	if err == nil {
		m.memo[key] = memoEntry{r, m.NaiveCost - before}
	}
	return r, err
}

func (m *Model) eval(n *Node, inst *jv.V, scope []*Node) (Result, error) {
	if m.Trace != nil {
		m.Trace(n)
	}
	s := n.V
	if s.K == jv.Bool {
		return Result{Valid: s.B}, nil
	}
	scope = append(scope[:len(scope):len(scope)], n.Resource)
	res := Result{Valid: true}
	fail := func() { res.Valid = false }

	sub := func(t *Node, i *jv.V) (Result, error) { return m.Eval(t, i, scope) }
	subV := func(v *jv.V, i *jv.V) (Result, error) {
		t := m.nodes[v]
		if t == nil {
			return Result{}, fmt.Errorf("model: unindexed subschema at %s", n.Ptr)
		}
		return m.Eval(t, i, scope)
	}

	// $ref
	if r := s.Get("$ref"); r != nil && r.K == jv.Str {
		t, _, err := m.ResolveRef(n, r.S)
		if err != nil {
			return Result{}, err
		}
		rr, err := sub(t, inst)
		if err != nil {
			return Result{}, err
		}
		if m.Draft == D7 {
			// "All other properties in a "$ref" object MUST be ignored."
			if !rr.Valid {
				return Result{Valid: false}, nil
			}
			return rr, nil
		}
		if !rr.Valid {
			fail()
		}
		res.absorb(rr)
	}
	if m.Draft == D2020 {
		if r := s.Get("$dynamicRef"); r != nil && r.K == jv.Str {
			t, dyn, err := m.ResolveRef(n, r.S)
			if err != nil {
				return Result{}, err
			}
			if dyn != "" {
				for _, rsrc := range scope {
					if a, ok := rsrc.anchors[dyn]; ok && a.dynamic {
						t = a.node
						break
					}
				}
			}
			rr, err := sub(t, inst)
			if err != nil {
				return Result{}, err
			}
			if !rr.Valid {
				fail()
			}
			res.absorb(rr)
		}
	}

	// type
	if t := s.Get("type"); t != nil {
		ok := false
		switch t.K {
		case jv.Str:
			ok = typeMatches(t.S, inst)
		case jv.Arr:
			for _, e := range t.A {
				if e.K == jv.Str && typeMatches(e.S, inst) {
					ok = true
				}
			}
		default:
			ok = true
		}
		if !ok {
			fail()
		}
	}
	if e := s.Get("enum"); e != nil && e.K == jv.Arr {
		ok := false
		for _, x := range e.A {
			if jv.Equal(x, inst) {
				ok = true
			}
		}
		if !ok {
			fail()
		}
	}
	if c := s.Get("const"); c != nil {
		if !jv.Equal(c, inst) {
			fail()
		}
	}

	// numbers
	if inst.K == jv.Num {
		if x := s.Get("multipleOf"); x != nil && x.K == jv.Num && x.N.Sign() > 0 {
			q := new(big.Rat).Quo(inst.N, x.N)
			if !q.IsInt() {
				fail()
			}
		}
		if x := s.Get("minimum"); x != nil && x.K == jv.Num && inst.N.Cmp(x.N) < 0 {
			fail()
		}
		if x := s.Get("maximum"); x != nil && x.K == jv.Num && inst.N.Cmp(x.N) > 0 {
			fail()
		}
		if x := s.Get("exclusiveMinimum"); x != nil && x.K == jv.Num && inst.N.Cmp(x.N) <= 0 {
			fail()
		}
		if x := s.Get("exclusiveMaximum"); x != nil && x.K == jv.Num && inst.N.Cmp(x.N) >= 0 {
			fail()
		}
	}
	// strings
	if inst.K == jv.Str {
		l := utf8.RuneCountInString(inst.S)
		if k, ok := intKW(s, "minLength"); ok && l < k {
			fail()
		}
		if k, ok := intKW(s, "maxLength"); ok && l > k {
			fail()
		}
		if p := s.Get("pattern"); p != nil && p.K == jv.Str && p.S != "" {
			re, err := m.re(p.S)
			if err != nil {
				return Result{}, fmt.Errorf("model: bad pattern %q", p.S)
			}
			if !re.MatchString(inst.S) {
				fail()
			}
		}
	}

	// in-place applicators
	for _, kw := range []string{"allOf", "anyOf", "oneOf"} {
		a := s.Get(kw)
		if a == nil || a.K != jv.Arr {
			continue
		}
		nOK := 0
		var rs []Result
		for _, e := range a.A {
			rr, err := subV(e, inst)
			if err != nil {
				return Result{}, err
			}
			if rr.Valid {
				nOK++
			}
			rs = append(rs, rr)
		}
		ok := false
		switch kw {
		case "allOf":
			ok = nOK == len(a.A)
		case "anyOf":
			ok = nOK >= 1
		case "oneOf":
			ok = nOK == 1
		}
		if !ok {
			fail()
		}
		if ok || Variant == VariantLeakyAnnotations {
			for _, rr := range rs {
				res.absorb(rr)
			}
		}
	}
	if x := s.Get("not"); isSchema(x) {
		rr, err := subV(x, inst)
		if err != nil {
			return Result{}, err
		}
		if rr.Valid {
			fail()
		}
		if Variant == VariantLeakyAnnotations {
			res.absorb(rr)
		}
	}
	if x := s.Get("if"); isSchema(x) {
		ri, err := subV(x, inst)
		if err != nil {
			return Result{}, err
		}
		branch := "else"
		if ri.Valid {
			branch = "then"
		}
		if ri.Valid || Variant == VariantLeakyAnnotations {
			res.absorb(ri)
		}
		if b := s.Get(branch); isSchema(b) {
			rb, err := subV(b, inst)
			if err != nil {
				return Result{}, err
			}
			if !rb.Valid {
				fail()
			}
			res.absorb(rb)
		}
	}

	// arrays
	if inst.K == jv.Arr {
		local := map[int]bool{}
		if m.Draft == D7 {
			it := s.Get("items")
			switch {
			case it != nil && it.K == jv.Arr:
				for i, e := range it.A {
					if i >= len(inst.A) {
						break
					}
					rr, err := subV(e, inst.A[i])
					if err != nil {
						return Result{}, err
					}
					if !rr.Valid {
						fail()
					}
					local[i] = true
				}
				if ai := s.Get("additionalItems"); isSchema(ai) {
					for i := len(it.A); i < len(inst.A); i++ {
						rr, err := subV(ai, inst.A[i])
						if err != nil {
							return Result{}, err
						}
						if !rr.Valid {
							fail()
						}
						local[i] = true
					}
				}
			case isSchema(it):
				for i, e := range inst.A {
					rr, err := subV(it, e)
					if err != nil {
						return Result{}, err
					}
					if !rr.Valid {
						fail()
					}
					local[i] = true
				}
			}
		} else {
			np := 0
			if p := s.Get("prefixItems"); p != nil && p.K == jv.Arr {
				np = len(p.A)
				for i, e := range p.A {
					if i >= len(inst.A) {
						break
					}
					rr, err := subV(e, inst.A[i])
					if err != nil {
						return Result{}, err
					}
					if !rr.Valid {
						fail()
					}
					local[i] = true
				}
			}
			if it := s.Get("items"); isSchema(it) {
				for i := np; i < len(inst.A); i++ {
					rr, err := subV(it, inst.A[i])
					if err != nil {
						return Result{}, err
					}
					if !rr.Valid {
						fail()
					}
					local[i] = true
				}
			}
		}
		if c := s.Get("contains"); isSchema(c) {
			cnt := 0
			for i, e := range inst.A {
				rr, err := subV(c, e)
				if err != nil {
					return Result{}, err
				}
				if rr.Valid {
					cnt++
					if m.Draft == D2020 {
						local[i] = true
					}
				}
			}
			minC, hasMin := intKW(s, "minContains")
			maxC, hasMax := intKW(s, "maxContains")
			if m.Draft == D7 {
				hasMin, hasMax = false, false
			}
			if !hasMin {
				minC = 1
			}
			if cnt < minC {
				fail()
			}
			if hasMax && cnt > maxC {
				fail()
			}
		}
		if k, ok := intKW(s, "minItems"); ok && len(inst.A) < k {
			fail()
		}
		if k, ok := intKW(s, "maxItems"); ok && len(inst.A) > k {
			fail()
		}
		if u := s.Get("uniqueItems"); u != nil && u.K == jv.Bool && u.B {
			for i := range inst.A {
				for j := i + 1; j < len(inst.A); j++ {
					if jv.Equal(inst.A[i], inst.A[j]) {
						fail()
					}
				}
			}
		}
		res.addItems(local)
		if m.Draft == D2020 {
			if ui := s.Get("unevaluatedItems"); isSchema(ui) {
				for i, e := range inst.A {
					if res.Items[i] {
						continue
					}
					rr, err := subV(ui, e)
					if err != nil {
						return Result{}, err
					}
					if !rr.Valid {
						fail()
					}
					res.addItems(map[int]bool{i: true})
				}
			}
		}
	}

	// objects
	if inst.K == jv.Obj {
		local := map[string]bool{}
		if p := s.Get("properties"); p != nil && p.K == jv.Obj {
			for _, mm := range p.O {
				if !isSchema(mm.V) {
					continue
				}
				if iv := inst.Get(mm.K); iv != nil {
					rr, err := subV(mm.V, iv)
					if err != nil {
						return Result{}, err
					}
					if !rr.Valid {
						fail()
					}
					local[mm.K] = true
				}
			}
		}
		if p := s.Get("patternProperties"); p != nil && p.K == jv.Obj {
			for _, mm := range p.O {
				if !isSchema(mm.V) {
					continue
				}
				re, err := m.re(mm.K)
				if err != nil {
					return Result{}, fmt.Errorf("model: bad pattern %q", mm.K)
				}
				for _, im := range inst.O {
					if re.MatchString(im.K) {
						rr, err := subV(mm.V, im.V)
						if err != nil {
							return Result{}, err
						}
						if !rr.Valid {
							fail()
						}
						local[im.K] = true
					}
				}
			}
		}
		if ap := s.Get("additionalProperties"); isSchema(ap) {
			for _, im := range inst.O {
				if local[im.K] {
					continue
				}
				rr, err := subV(ap, im.V)
				if err != nil {
					return Result{}, err
				}
				if !rr.Valid {
					fail()
				}
				local[im.K] = true
			}
		}
		if pn := s.Get("propertyNames"); isSchema(pn) {
			for _, im := range inst.O {
				rr, err := subV(pn, jv.StrV(im.K))
				if err != nil {
					return Result{}, err
				}
				if !rr.Valid {
					fail()
				}
			}
		}
		if k, ok := intKW(s, "minProperties"); ok && len(inst.O) < k {
			fail()
		}
		if k, ok := intKW(s, "maxProperties"); ok && len(inst.O) > k {
			fail()
		}
		if r := s.Get("required"); r != nil && r.K == jv.Arr {
			for _, e := range r.A {
				if e.K == jv.Str && !inst.Has(e.S) {
					fail()
				}
			}
		}
		res.addProps(local)
		if m.Draft == D7 {
			if d := s.Get("dependencies"); d != nil && d.K == jv.Obj {
				for _, mm := range d.O {
					if !inst.Has(mm.K) {
						continue
					}
					if mm.V.K == jv.Arr {
						for _, e := range mm.V.A {
							if e.K == jv.Str && !inst.Has(e.S) {
								fail()
							}
						}
					} else if isSchema(mm.V) {
						rr, err := subV(mm.V, inst)
						if err != nil {
							return Result{}, err
						}
						if !rr.Valid {
							fail()
						}
						res.absorb(rr)
					}
				}
			}
		} else {
			if d := s.Get("dependentRequired"); d != nil && d.K == jv.Obj {
				for _, mm := range d.O {
					if inst.Has(mm.K) && mm.V.K == jv.Arr {
						for _, e := range mm.V.A {
							if e.K == jv.Str && !inst.Has(e.S) {
								fail()
							}
						}
					}
				}
			}
			if d := s.Get("dependentSchemas"); d != nil && d.K == jv.Obj {
				for _, mm := range d.O {
					if inst.Has(mm.K) && isSchema(mm.V) {
						rr, err := subV(mm.V, inst)
						if err != nil {
							return Result{}, err
						}
						if !rr.Valid {
							fail()
						}
						res.absorb(rr)
					}
				}
			}
			if up := s.Get("unevaluatedProperties"); isSchema(up) {
				for _, im := range inst.O {
					if res.Props[im.K] {
						continue
					}
					rr, err := subV(up, im.V)
					if err != nil {
						return Result{}, err
					}
					if !rr.Valid {
						fail()
					}
					res.addProps(map[string]bool{im.K: true})
				}
			}
		}
	}

	if !res.Valid && Variant != VariantLeakyAnnotations {
		return Result{Valid: false}, nil
	}
	return res, nil
}
