package refmodel

import "strings"

// Own RFC 3986 implementation (parse §3 / appendix B, resolve §5.2, recompose §5.3).
// Deliberately independent of net/url.

type URI struct {
	Scheme    string
	HasAuth   bool
	Authority string
	Path      string
	HasQuery  bool
	Query     string
	HasFrag   bool
	Fragment  string // still percent-encoded
}

// ParseURI splits a URI reference into its five components (RFC 3986 appendix B).
func ParseURI(s string) URI {
	var u URI
	if i := strings.IndexByte(s, '#'); i >= 0 {
		u.HasFrag = true
		u.Fragment = s[i+1:]
		s = s[:i]
	}
	if i := strings.IndexByte(s, '?'); i >= 0 {
		u.HasQuery = true
		u.Query = s[i+1:]
		s = s[:i]
	}
	// scheme: ALPHA *( ALPHA / DIGIT / "+" / "-" / "." ) ":"
	if i := strings.IndexAny(s, ":/"); i > 0 && s[i] == ':' && validScheme(s[:i]) {
		u.Scheme = s[:i]
		s = s[i+1:]
	}
	if strings.HasPrefix(s, "//") {
		u.HasAuth = true
		s = s[2:]
		if i := strings.IndexByte(s, '/'); i >= 0 {
			u.Authority = s[:i]
			s = s[i:]
		} else {
			u.Authority = s
			s = ""
		}
	}
	u.Path = s
	return u
}

func validScheme(s string) bool {
	for i := 0; i < len(s); i++ {
		c := s[i]
		switch {
		case c >= 'a' && c <= 'z', c >= 'A' && c <= 'Z':
		case i > 0 && (c >= '0' && c <= '9' || c == '+' || c == '-' || c == '.'):
		default:
			return false
		}
	}
	return len(s) > 0
}

func (u URI) String() string {
	var sb strings.Builder
	if u.Scheme != "" {
		sb.WriteString(u.Scheme)
		sb.WriteByte(':')
	}
	if u.HasAuth {
		sb.WriteString("//")
		sb.WriteString(u.Authority)
	}
	sb.WriteString(u.Path)
	if u.HasQuery {
		sb.WriteByte('?')
		sb.WriteString(u.Query)
	}
	if u.HasFrag {
		sb.WriteByte('#')
		sb.WriteString(u.Fragment)
	}
	return sb.String()
}

// IsAbs reports whether the URI has a scheme.
func (u URI) IsAbs() bool { return u.Scheme != "" }

// WithoutFragment drops the fragment.
func (u URI) WithoutFragment() URI {
	u.HasFrag, u.Fragment = false, ""
	return u
}

func removeDotSegments(p string) string {
	var out []string
	in := p
	for in != "" {
		switch {
		case strings.HasPrefix(in, "../"):
			in = in[3:]
		case strings.HasPrefix(in, "./"):
			in = in[2:]
		case strings.HasPrefix(in, "/./"):
			in = in[2:]
		case in == "/.":
			in = "/"
		case strings.HasPrefix(in, "/../"):
			in = in[3:]
			if len(out) > 0 {
				out = out[:len(out)-1]
			}
		case in == "/..":
			in = "/"
			if len(out) > 0 {
				out = out[:len(out)-1]
			}
		case in == "." || in == "..":
			in = ""
		default:
			// move the first path segment (including the initial "/" if any)
			i := strings.IndexByte(in[1:], '/')
			if i < 0 {
				out = append(out, in)
				in = ""
			} else {
				out = append(out, in[:i+1])
				in = in[i+1:]
			}
		}
	}
	return strings.Join(out, "")
}

func merge(base URI, refPath string) string {
	if base.HasAuth && base.Path == "" {
		return "/" + refPath
	}
	if i := strings.LastIndexByte(base.Path, '/'); i >= 0 {
		return base.Path[:i+1] + refPath
	}
	return refPath
}

// Resolve implements RFC 3986 section 5.2.2 (strict).
func Resolve(base, ref URI) URI {
	var t URI
	if ref.Scheme != "" {
		t.Scheme = ref.Scheme
		t.HasAuth, t.Authority = ref.HasAuth, ref.Authority
		t.Path = removeDotSegments(ref.Path)
		t.HasQuery, t.Query = ref.HasQuery, ref.Query
	} else {
		if ref.HasAuth {
			t.HasAuth, t.Authority = true, ref.Authority
			t.Path = removeDotSegments(ref.Path)
			t.HasQuery, t.Query = ref.HasQuery, ref.Query
		} else {
			if ref.Path == "" {
				t.Path = base.Path
				if ref.HasQuery {
					t.HasQuery, t.Query = true, ref.Query
				} else {
					t.HasQuery, t.Query = base.HasQuery, base.Query
				}
			} else {
				if strings.HasPrefix(ref.Path, "/") {
					t.Path = removeDotSegments(ref.Path)
				} else {
					t.Path = removeDotSegments(merge(base, ref.Path))
				}
				t.HasQuery, t.Query = ref.HasQuery, ref.Query
			}
			t.HasAuth, t.Authority = base.HasAuth, base.Authority
		}
		t.Scheme = base.Scheme
	}
	t.HasFrag, t.Fragment = ref.HasFrag, ref.Fragment
	return t
}

// PercentDecode decodes %XX escapes; ok=false on a malformed escape.
func PercentDecode(s string) (string, bool) {
	if !strings.Contains(s, "%") {
		return s, true
	}
	var sb strings.Builder
	for i := 0; i < len(s); i++ {
		if s[i] != '%' {
			sb.WriteByte(s[i])
			continue
		}
		if i+2 >= len(s) {
			return "", false
		}
		h, l := unhex(s[i+1]), unhex(s[i+2])
		if h < 0 || l < 0 {
			return "", false
		}
		sb.WriteByte(byte(h<<4 | l))
		i += 2
	}
	return sb.String(), true
}

func unhex(c byte) int {
	switch {
	case c >= '0' && c <= '9':
		return int(c - '0')
	case c >= 'a' && c <= 'f':
		return int(c-'a') + 10
	case c >= 'A' && c <= 'F':
		return int(c-'A') + 10
	}
	return -1
}
