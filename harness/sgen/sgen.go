// Package sgen generates schema documents as raw JSON (jv.V trees) for both drafts, with
// boundary-biased operands drawn from the pools shared with the instance generator, plus a
// heuristic satisfier that produces instances likely to be accepted.
//
// Soundness built in by construction (see DESIGN.md section 3.3):
//   - $ref only targets region roots ($defs entries, the document root, anchors on them); a
//     reference that is not below an instance-descending keyword only targets a later
//     definition, so the in-place reference graph is acyclic;
//   - patterns come from the common subset of RE2 and ECMA-262;
//   - integer-valued keywords are small non-negative integers spelled without exponent;
//   - multipleOf operands are positive dyadic rationals.
package sgen

import (
	"slices"
	"strconv"

	"pgregory.net/rapid"

	"verif/jv"
	"verif/refmodel"
)

var (
	Patterns    = []string{"^a", "b$", "^[ab]+$", "a|c", "^.{2}$", "\u00e9", "^$", "[0-9]", "^(ab)*$", "a.c", "^.$", "^[^a]"}
	MultipleOfs = []string{"1", "2", "3", "0.5", "0.25", "2.5", "1.5", "0.125", "10", "7"}
	Types       = []string{"null", "boolean", "integer", "number", "string", "array", "object"}
	Formats     = []string{"email", "date-time", "ipv4", "uri", "regex", "unknown-format"}
)

// Lens concentrates generation on one interaction family.
type Lens int

const (
	LensAny Lens = iota
	LensNumeric
	LensString
	LensArray
	LensObject
	LensLogic
	LensRefs
	LensUneval
	numLenses
)

type Opts struct {
	Draft    refmodel.Draft
	MaxDepth int
	NoRefs   bool
	NoMeta   bool     // no $schema at the root
	Keys     []string // property-name pool
	Lens     Lens
	// CommonOnly (draft-07 mode): only keywords that exist in both drafts; no fragment $id
	// anchors, no array-form items, additionalItems or dependencies.
	CommonOnly bool
	NoAnchors  bool
	// Dynamic (2020-12 only): never set by C01; reserved.
}

func (o Opts) keys() []string {
	if o.Keys != nil {
		return o.Keys
	}
	return jv.KeyPool
}

type gen struct {
	t      *rapid.T
	o      Opts
	nDefs  int
	anchor []bool // def i carries an anchor "A<i>"
	region int    // -1 = root, i = inside def i
	lens   Lens
}

func num(s string) *jv.V        { return jv.NumV(s) }
func str(s string) *jv.V        { return jv.StrV(s) }
func boolean(b bool) *jv.V      { return jv.BoolV(b) }
func smallInt(n int) *jv.V      { return jv.NumV(strconv.Itoa(n)) }
func obj(ms ...jv.Member) *jv.V { return jv.ObjV(ms...) }

func (g *gen) intn(n int, label string) int { return rapid.IntRange(0, n-1).Draw(g.t, label) }
func (g *gen) coin(p int, label string) bool {
	// true with probability 1/p
	return rapid.IntRange(0, p-1).Draw(g.t, label) == 0
}

// Document draws a whole schema document.
func Document(o Opts) *rapid.Generator[*jv.V] {
	return rapid.Custom(func(t *rapid.T) *jv.V { return Draw(t, o) })
}

// Draw generates one document.
func Draw(t *rapid.T, o Opts) *jv.V {
	if o.MaxDepth == 0 {
		o.MaxDepth = 3
	}
	g := &gen{t: t, o: o, region: -1}
	g.lens = o.Lens
	if g.lens == LensAny && g.coin(2, "uselens") {
		g.lens = Lens(1 + g.intn(int(numLenses)-1, "lens"))
	}
	if o.Draft == refmodel.D7 && g.lens == LensUneval {
		g.lens = LensObject
	}
	if !o.NoRefs && (g.lens == LensRefs || g.coin(3, "hasdefs")) {
		g.nDefs = 1 + g.intn(3, "ndefs")
		g.anchor = make([]bool, g.nDefs)
		for i := range g.anchor {
			g.anchor[i] = g.coin(3, "defanchor") && !o.CommonOnly && !o.NoAnchors
		}
	}
	root := g.schema(o.MaxDepth, false, true)
	if root.K != jv.Obj {
		if g.nDefs == 0 && (o.NoMeta || o.Draft == refmodel.D2020) {
			return root
		}
		if root.B {
			root = obj()
		} else {
			root = obj(jv.Member{K: "not", V: obj()})
		}
	}
	if g.nDefs > 0 {
		defs := obj()
		for i := 0; i < g.nDefs; i++ {
			g.region = i
			d := g.schema(o.MaxDepth-1, false, false)
			if g.anchor[i] {
				if d.K != jv.Obj {
					if d.B {
						d = obj()
					} else {
						d = obj(jv.Member{K: "not", V: obj()})
					}
				}
				if o.Draft == refmodel.D7 {
					d.Del("$ref") // $id beside $ref is ignored in draft-07, and the anchor may already be referenced
					d.Set("$id", str("#A"+strconv.Itoa(i)))
				} else {
					d.Set("$anchor", str("A"+strconv.Itoa(i)))
				}
			}
			defs.Set("d"+strconv.Itoa(i), d)
		}
		g.region = -1
		if o.Draft == refmodel.D7 && !o.CommonOnly {
			// keywords of later drafts that mean nothing here: a `$anchor` bearing the very name of a
			// draft-07 `$id: "#A<i>"` anchor, on another subschema (unless the root already holds it,
			// an entry under `$defs` — not a draft-07 keyword, so nothing below it is a schema to
			// draft-07, though the library keeps it)
			for i := 0; i < g.nDefs; i++ {
				if g.anchor[i] && g.coin(3, "strayanchor") {
					holder := obj(jv.Member{K: "$anchor", V: str("A" + strconv.Itoa(i))}, jv.Member{K: "not", V: obj()})
					switch g.intn(3, "strayanchorat") {
					case 0:
						if !root.Has("$anchor") {
							root.Set("$anchor", str("A"+strconv.Itoa(i)))
						}
					case 1:
						defs.Set("zz-stray"+strconv.Itoa(i), holder)
					default:
						a := root.Get("allOf")
						if a == nil || a.K != jv.Arr {
							a = &jv.V{K: jv.Arr}
							root.Set("allOf", a)
						}
						a.A = append(a.A, obj(jv.Member{K: "$anchor", V: str("A" + strconv.Itoa(i))}))
					}
				}
			}
		}
		if o.Draft == refmodel.D7 {
			root.Set("definitions", defs)
		} else {
			root.Set("$defs", defs)
		}
	} else if o.Draft == refmodel.D7 && !o.CommonOnly && root.K == jv.Obj && g.coin(6, "d7dollardefs") {
		// `$defs` in a draft-07 document (which has no `definitions`: the library refuses the two
		// together, an open finding of C18): not a draft-07 keyword, kept and written back as it is
		root.Set("$defs", obj(jv.Member{K: "x", V: obj(jv.Member{K: "type", V: str("integer")})}))
	}
	if !o.NoMeta {
		switch o.Draft {
		case refmodel.D7:
			uri := refmodel.URI7
			if g.coin(2, "https") {
				uri = refmodel.URI7Sec
			}
			// first member, as is customary
			root.O = append([]jv.Member{{K: "$schema", V: str(uri)}}, root.O...)
		default:
			if g.coin(3, "schemakw") {
				root.O = append([]jv.Member{{K: "$schema", V: str(refmodel.URI2020)}}, root.O...)
			}
		}
	}
	// A draft-07 root that ended up with a $ref ignores its siblings, including definitions:
	// references into them still resolve (they are found by JSON Pointer), so nothing to fix.
	return root
}

// Sub draws a single subschema without $defs (used by other generators).
func Sub(t *rapid.T, o Opts, depth int) *jv.V {
	g := &gen{t: t, o: o, region: -1, lens: o.Lens}
	return g.schema(depth, false, false)
}

func (g *gen) value(depth int) *jv.V {
	return jv.Gen(jv.Opts{MaxDepth: depth, MaxLen: 3, Keys: g.o.keys()}).Draw(g.t, "val")
}

func (g *gen) key() string { return rapid.SampledFrom(g.o.keys()).Draw(g.t, "key") }

// keyIn draws a property name for a map keyword of schema object s: half of the time one that
// another keyword of s already talks about (properties, dependentRequired, dependentSchemas,
// dependencies, required), so that several keywords meet on one name.
func (g *gen) keyIn(s *jv.V) string {
	var names []string
	for _, kw := range []string{"properties", "dependentRequired", "dependentSchemas", "dependencies"} {
		if m := s.Get(kw); m != nil && m.K == jv.Obj {
			for _, e := range m.O {
				names = append(names, e.K)
			}
		}
	}
	if r := s.Get("required"); r != nil && r.K == jv.Arr {
		for _, e := range r.A {
			if e.K == jv.Str {
				names = append(names, e.S)
			}
		}
	}
	if len(names) > 0 && g.coin(2, "sharedname") {
		return names[g.intn(len(names), "sharednameidx")]
	}
	return g.key()
}

// refTarget picks a reference string allowed at this position, or "".
func (g *gen) refTarget(descended bool) string {
	if g.o.NoRefs {
		return ""
	}
	var cands []string
	lo := g.region + 1
	if descended {
		lo = 0
		cands = append(cands, "#")
	}
	for i := lo; i < g.nDefs; i++ {
		if g.o.Draft == refmodel.D7 {
			cands = append(cands, "#/definitions/d"+strconv.Itoa(i))
		} else {
			cands = append(cands, "#/$defs/d"+strconv.Itoa(i))
		}
		if g.anchor[i] {
			cands = append(cands, "#A"+strconv.Itoa(i))
		}
	}
	if len(cands) == 0 {
		return ""
	}
	return rapid.SampledFrom(cands).Draw(g.t, "reftarget")
}

// kw2020Only: what draft 2019-09 and 2020-12 added to the vocabulary.
var kw2020Only = []string{"minContains", "maxContains", "unevaluatedProperties", "unevaluatedItems", "prefixItems", "dependentRequired", "dependentSchemas"}

type kwGen func(g *gen, s *jv.V, depth int, descended bool)

func (g *gen) bound() *jv.V { return jv.GenNum().Draw(g.t, "bound") }

func (g *gen) subs(n int, depth int, descended bool) *jv.V {
	arr := &jv.V{K: jv.Arr, A: []*jv.V{}}
	for i := 0; i < n; i++ {
		arr.A = append(arr.A, g.schema(depth-1, descended, false))
	}
	return arr
}

// alternatives draws the value of allOf/anyOf/oneOf: usually 1-3 subschemas, now and then a long
// list (9-13) of small, mutually exclusive alternatives as tagged unions have them, so that an
// instance can fail every one of them.
func (g *gen) alternatives(d int, desc bool) *jv.V {
	if !g.coin(14, "longlist") {
		return g.subs(1+g.intn(3, "n"), d, desc)
	}
	n := 9 + g.intn(5, "nlong")
	arr := &jv.V{K: jv.Arr, A: []*jv.V{}}
	tagged := g.coin(2, "tagged")
	for i := 0; i < n; i++ {
		if tagged {
			arr.A = append(arr.A, obj(jv.Member{K: "properties", V: obj(jv.Member{K: "kind", V: obj(jv.Member{K: "const", V: str("k" + strconv.Itoa(i))})})}, jv.Member{K: "required", V: jv.ArrV(str("kind"))}))
		} else {
			arr.A = append(arr.A, obj(jv.Member{K: "const", V: jv.NumV(strconv.Itoa(100 + i))}))
		}
	}
	return arr
}

func (g *gen) strList(min, max int) *jv.V {
	n := min + g.intn(max-min+1, "nstr")
	arr := &jv.V{K: jv.Arr, A: []*jv.V{}}
	seen := map[string]bool{}
	for i := 0; i < n; i++ {
		k := g.key()
		if seen[k] {
			continue
		}
		seen[k] = true
		arr.A = append(arr.A, str(k))
	}
	return arr
}

var kwTable map[string]kwGen

func init() {
	kwTable = map[string]kwGen{
		"type": func(g *gen, s *jv.V, depth int, _ bool) {
			if g.coin(3, "typearr") {
				n := 1 + g.intn(3, "ntypes")
				arr := &jv.V{K: jv.Arr, A: []*jv.V{}}
				seen := map[string]bool{}
				for i := 0; i < n; i++ {
					ty := rapid.SampledFrom(Types).Draw(g.t, "type")
					if !seen[ty] {
						seen[ty] = true
						arr.A = append(arr.A, str(ty))
					}
				}
				s.Set("type", arr)
			} else {
				s.Set("type", str(rapid.SampledFrom(Types).Draw(g.t, "type")))
			}
		},
		"enum": func(g *gen, s *jv.V, depth int, _ bool) {
			n := g.intn(5, "nenum")
			if n == 0 && !g.coin(4, "emptyenum") {
				n = 1
			}
			arr := &jv.V{K: jv.Arr, A: []*jv.V{}}
			for i := 0; i < n; i++ {
				arr.A = append(arr.A, g.value(1))
			}
			s.Set("enum", arr)
		},
		"const": func(g *gen, s *jv.V, depth int, _ bool) { s.Set("const", g.value(2)) },
		"multipleOf": func(g *gen, s *jv.V, _ int, _ bool) {
			s.Set("multipleOf", num(rapid.SampledFrom(MultipleOfs).Draw(g.t, "mult")))
		},
		"minimum":          func(g *gen, s *jv.V, _ int, _ bool) { s.Set("minimum", g.bound()) },
		"maximum":          func(g *gen, s *jv.V, _ int, _ bool) { s.Set("maximum", g.bound()) },
		"exclusiveMinimum": func(g *gen, s *jv.V, _ int, _ bool) { s.Set("exclusiveMinimum", g.bound()) },
		"exclusiveMaximum": func(g *gen, s *jv.V, _ int, _ bool) { s.Set("exclusiveMaximum", g.bound()) },
		"minLength":        func(g *gen, s *jv.V, _ int, _ bool) { s.Set("minLength", g.count(4)) },
		"maxLength":        func(g *gen, s *jv.V, _ int, _ bool) { s.Set("maxLength", g.count(4)) },
		"pattern": func(g *gen, s *jv.V, _ int, _ bool) {
			s.Set("pattern", str(rapid.SampledFrom(Patterns).Draw(g.t, "pat")))
		},
		"minItems":      func(g *gen, s *jv.V, _ int, _ bool) { s.Set("minItems", g.count(4)) },
		"maxItems":      func(g *gen, s *jv.V, _ int, _ bool) { s.Set("maxItems", g.count(4)) },
		"uniqueItems":   func(g *gen, s *jv.V, _ int, _ bool) { s.Set("uniqueItems", boolean(!g.coin(5, "uniqfalse"))) },
		"minContains":   func(g *gen, s *jv.V, _ int, _ bool) { s.Set("minContains", g.count(3)) },
		"maxContains":   func(g *gen, s *jv.V, _ int, _ bool) { s.Set("maxContains", g.count(3)) },
		"minProperties": func(g *gen, s *jv.V, _ int, _ bool) { s.Set("minProperties", g.count(3)) },
		"maxProperties": func(g *gen, s *jv.V, _ int, _ bool) { s.Set("maxProperties", g.count(3)) },
		"required":      func(g *gen, s *jv.V, _ int, _ bool) { s.Set("required", g.strList(0, 3)) },
		"dependentRequired": func(g *gen, s *jv.V, _ int, _ bool) {
			o := obj()
			for i, n := 0, 1+g.intn(2, "ndr"); i < n; i++ {
				o.Set(g.keyIn(s), g.strList(0, 2))
			}
			s.Set("dependentRequired", o)
		},
		"allOf": func(g *gen, s *jv.V, d int, desc bool) { s.Set("allOf", g.alternatives(d, desc)) },
		"anyOf": func(g *gen, s *jv.V, d int, desc bool) { s.Set("anyOf", g.alternatives(d, desc)) },
		"oneOf": func(g *gen, s *jv.V, d int, desc bool) { s.Set("oneOf", g.alternatives(d, desc)) },
		"not":   func(g *gen, s *jv.V, d int, desc bool) { s.Set("not", g.schema(d-1, desc, false)) },
		"if": func(g *gen, s *jv.V, d int, desc bool) {
			s.Set("if", g.schema(d-1, desc, false))
			if !g.coin(4, "nothen") {
				s.Set("then", g.schema(d-1, desc, false))
			}
			if !g.coin(3, "noelse") {
				s.Set("else", g.schema(d-1, desc, false))
			}
		},
		"dependentSchemas": func(g *gen, s *jv.V, d int, desc bool) {
			o := obj()
			for i, n := 0, 1+g.intn(2, "nds"); i < n; i++ {
				o.Set(g.keyIn(s), g.schema(d-1, desc, false))
			}
			s.Set("dependentSchemas", o)
		},
		"prefixItems":      func(g *gen, s *jv.V, d int, _ bool) { s.Set("prefixItems", g.subs(g.intn(4, "n"), d, true)) },
		"items":            func(g *gen, s *jv.V, d int, _ bool) { s.Set("items", g.schema(d-1, true, false)) },
		"contains":         func(g *gen, s *jv.V, d int, _ bool) { s.Set("contains", g.schema(d-1, true, false)) },
		"unevaluatedItems": func(g *gen, s *jv.V, d int, _ bool) { s.Set("unevaluatedItems", g.schema(d-1, true, false)) },
		"properties": func(g *gen, s *jv.V, d int, _ bool) {
			o := obj()
			for i, n := 0, g.intn(4, "nprops"); i < n; i++ {
				o.Set(g.keyIn(s), g.schema(d-1, true, false))
			}
			s.Set("properties", o)
		},
		"patternProperties": func(g *gen, s *jv.V, d int, _ bool) {
			o := obj()
			for i, n := 0, 1+g.intn(2, "npp"); i < n; i++ {
				o.Set(rapid.SampledFrom(Patterns).Draw(g.t, "ppat"), g.schema(d-1, true, false))
			}
			s.Set("patternProperties", o)
		},
		"additionalProperties":  func(g *gen, s *jv.V, d int, _ bool) { s.Set("additionalProperties", g.schema(d-1, true, false)) },
		"propertyNames":         func(g *gen, s *jv.V, d int, _ bool) { s.Set("propertyNames", g.schema(d-1, true, false)) },
		"unevaluatedProperties": func(g *gen, s *jv.V, d int, _ bool) { s.Set("unevaluatedProperties", g.schema(d-1, true, false)) },
		"$ref": func(g *gen, s *jv.V, d int, desc bool) {
			if r := g.refTarget(desc); r != "" {
				s.Set("$ref", str(r))
				if g.o.Draft == refmodel.D7 && g.coin(3, "ignoredsibling") {
					// draft-07: a sibling that would reject everything if it were honoured
					switch g.intn(5, "ignoredsiblingkind") {
					case 0:
						s.Set("not", boolean(true))
					case 1:
						s.Set("not", obj())
					case 2:
						s.Set("enum", &jv.V{K: jv.Arr, A: []*jv.V{}})
					case 3:
						s.Set("allOf", jv.ArrV(boolean(false)))
					default:
						s.Set("required", jv.ArrV(str("no-such-property-anywhere")))
					}
				}
			}
		},
		// draft-07 only
		"items[]": func(g *gen, s *jv.V, d int, _ bool) {
			s.Set("items", g.subs(g.intn(4, "n"), d, true))
			if !s.Has("additionalItems") && g.coin(2, "withadditionalitems") {
				s.Set("additionalItems", g.schema(d-1, true, false))
			}
		},
		"additionalItems": func(g *gen, s *jv.V, d int, _ bool) { s.Set("additionalItems", g.schema(d-1, true, false)) },
		"dependencies": func(g *gen, s *jv.V, d int, desc bool) {
			o := obj()
			for i, n := 0, 1+g.intn(3, "ndep"); i < n; i++ {
				if g.coin(2, "depstr") {
					o.Set(g.keyIn(s), g.strList(0, 2))
				} else {
					o.Set(g.keyIn(s), g.schema(d-1, desc, false))
				}
			}
			s.Set("dependencies", o)
		},
		// non-asserting
		"title":       func(g *gen, s *jv.V, _ int, _ bool) { s.Set("title", str("t")) },
		"description": func(g *gen, s *jv.V, _ int, _ bool) { s.Set("description", str("d")) },
		"format": func(g *gen, s *jv.V, _ int, _ bool) {
			s.Set("format", str(rapid.SampledFrom(Formats).Draw(g.t, "fmt")))
		},
		"default": func(g *gen, s *jv.V, _ int, _ bool) { s.Set("default", g.value(1)) },
	}
}

func (g *gen) count(max int) *jv.V {
	n := g.intn(max+1, "count")
	v := smallInt(n)
	if g.coin(6, "floatspelled") {
		v.Text = strconv.Itoa(n) + ".0"
	}
	return v
}

var (
	kwNumeric  = []string{"type", "minimum", "maximum", "exclusiveMinimum", "exclusiveMaximum", "multipleOf", "enum", "const"}
	kwString   = []string{"type", "minLength", "maxLength", "pattern", "enum", "const"}
	kwArray20  = []string{"type", "prefixItems", "items", "contains", "minContains", "maxContains", "minItems", "maxItems", "uniqueItems", "unevaluatedItems"}
	kwArray7   = []string{"type", "items", "items[]", "additionalItems", "contains", "minItems", "maxItems", "uniqueItems"}
	kwObject20 = []string{"type", "properties", "patternProperties", "additionalProperties", "propertyNames", "required", "dependentRequired", "dependentSchemas", "minProperties", "maxProperties", "unevaluatedProperties"}
	kwObject7  = []string{"type", "properties", "patternProperties", "additionalProperties", "propertyNames", "required", "dependencies", "minProperties", "maxProperties"}
	kwLogic    = []string{"allOf", "anyOf", "oneOf", "not", "if", "type", "const", "enum"}
	kwUneval   = []string{"unevaluatedProperties", "unevaluatedItems", "allOf", "anyOf", "oneOf", "if", "not", "dependentSchemas", "properties", "patternProperties", "additionalProperties", "prefixItems", "items", "contains", "$ref", "required"}
	kwMeta     = []string{"title", "description", "format", "default"}
)

func (g *gen) vocabulary() []string {
	d7 := g.o.Draft == refmodel.D7
	var all []string
	add := func(xs []string) {
		for _, x := range xs {
			dup := false
			for _, y := range all {
				if x == y {
					dup = true
				}
			}
			if !dup {
				all = append(all, x)
			}
		}
	}
	if d7 {
		// keywords that later drafts introduced: under draft-07 they are unknown keywords and must be
		// ignored, whatever they would mean in 2020-12
		add(kw2020Only)
	}
	switch g.lens {
	case LensNumeric:
		add(kwNumeric)
		add([]string{"allOf", "anyOf", "not", "$ref"})
	case LensString:
		add(kwString)
		add([]string{"allOf", "oneOf", "not", "$ref"})
	case LensArray:
		if d7 {
			add(kwArray7)
		} else {
			add(kwArray20)
		}
		add([]string{"allOf", "anyOf", "$ref", "minimum", "const"})
	case LensObject:
		if d7 {
			add(kwObject7)
		} else {
			add(kwObject20)
		}
		add([]string{"allOf", "oneOf", "$ref", "minLength", "const"})
	case LensLogic:
		add(kwLogic)
		add([]string{"minimum", "maxLength", "required", "$ref"})
	case LensRefs:
		add([]string{"$ref", "$ref", "properties", "items", "allOf", "anyOf", "type", "required", "minimum", "not"})
		if d7 {
			add([]string{"dependencies"})
		}
	case LensUneval:
		add(kwUneval)
	default:
		add(kwNumeric)
		add(kwString)
		if d7 {
			add(kwArray7)
			add(kwObject7)
		} else {
			add(kwArray20)
			add(kwObject20)
		}
		add(kwLogic)
		add([]string{"$ref"})
		add(kwMeta)
	}
	return all
}

// schema draws one subschema. descended = an instance-descending keyword lies between this
// position and the root of its region.
func (g *gen) schema(depth int, descended bool, isRoot bool) *jv.V {
	if g.o.Draft == refmodel.D7 && !isRoot && !g.o.NoRefs && g.coin(7, "d7refonly") {
		// draft-07: a reference object at whatever position this is (additionalItems,
		// additionalProperties, not, contains, dependencies ...), beside a keyword that is ignored
		// there and would reject everything if it were not
		if r := g.refTarget(descended); r != "" {
			s := obj(jv.Member{K: "$ref", V: str(r)})
			switch g.intn(4, "d7reftrap") {
			case 0:
				s.Set("not", obj())
			case 1:
				s.Set("not", boolean(true))
			case 2:
				s.Set("enum", &jv.V{K: jv.Arr, A: []*jv.V{}})
			}
			return s
		}
	}
	if depth <= 0 || g.coin(8, "bool") {
		switch g.intn(6, "leaf") {
		case 0:
			return boolean(false)
		case 1, 2:
			return boolean(true)
		case 3:
			return obj()
		}
		// a small assertion-only leaf
		s := obj()
		leafKW := []string{"type", "const", "minimum", "maxLength", "enum", "required", "minItems", "pattern", "maximum"}
		kwTable[rapid.SampledFrom(leafKW).Draw(g.t, "leafkw")](g, s, 1, descended)
		return s
	}
	voc := g.vocabulary()
	if g.o.CommonOnly {
		var f []string
		for _, k := range voc {
			if k != "items[]" && k != "additionalItems" && k != "dependencies" && !slices.Contains(kw2020Only, k) {
				f = append(f, k)
			}
		}
		voc = f
	}
	s := obj()
	n := 1 + g.intn(4, "nkw")
	if g.coin(6, "manykw") {
		n += 2
	}
	for i := 0; i < n; i++ {
		kw := rapid.SampledFrom(voc).Draw(g.t, "kw")
		name := kw
		if kw == "items[]" {
			name = "items"
		}
		if s.Has(name) || (kw == "if" && s.Has("if")) {
			continue
		}
		kwTable[kw](g, s, depth, descended)
	}
	return s
}
