package sgen

import (
	"strings"

	"pgregory.net/rapid"

	"verif/jv"
)

// Satisfy heuristically builds an instance that is likely to be accepted by schema s
// (a raw document; refs are followed within root). It is a generator aid, not an oracle:
// nothing depends on the result actually being valid.
func Satisfy(t *rapid.T, root, s *jv.V, depth int) *jv.V {
	sa := &satisfier{t: t, root: root}
	return sa.sat(s, depth, 0)
}

type satisfier struct {
	t    *rapid.T
	root *jv.V
}

func (sa *satisfier) follow(ref string) *jv.V {
	if ref == "#" {
		return sa.root
	}
	if strings.HasPrefix(ref, "#/") {
		cur := sa.root
		for _, seg := range strings.Split(ref[2:], "/") {
			if cur == nil || cur.K != jv.Obj {
				return nil
			}
			cur = cur.Get(seg)
		}
		return cur
	}
	if strings.HasPrefix(ref, "#A") {
		// anchors "A<i>" sit on $defs/definitions entry d<i>
		for _, kw := range []string{"$defs", "definitions"} {
			if d := sa.root.Get(kw); d != nil {
				if e := d.Get("d" + ref[2:]); e != nil {
					return e
				}
			}
		}
	}
	return nil
}

func (sa *satisfier) pick(n int, label string) int {
	if n <= 1 {
		return 0
	}
	return rapid.IntRange(0, n-1).Draw(sa.t, label)
}

func (sa *satisfier) free(depth int) *jv.V {
	return jv.Gen(jv.Opts{MaxDepth: depth, MaxLen: 3}).Draw(sa.t, "free")
}

func (sa *satisfier) sat(s *jv.V, depth, hops int) *jv.V {
	if s == nil || s.K != jv.Obj || depth < 0 || hops > 6 {
		return sa.free(1)
	}
	if c := s.Get("const"); c != nil {
		return c.Clone()
	}
	if e := s.Get("enum"); e != nil && e.K == jv.Arr && len(e.A) > 0 {
		return e.A[sa.pick(len(e.A), "enumpick")].Clone()
	}
	if r := s.Get("$ref"); r != nil && r.K == jv.Str {
		if t := sa.follow(r.S); t != nil && sa.pick(3, "followref") > 0 {
			return sa.sat(t, depth, hops+1)
		}
	}
	for _, kw := range []string{"allOf", "anyOf", "oneOf"} {
		if a := s.Get(kw); a != nil && a.K == jv.Arr && len(a.A) > 0 && sa.pick(2, "viaapplicator") == 0 {
			merged := sa.merge(s, a.A[sa.pick(len(a.A), "branch")])
			return sa.sat(merged, depth, hops+1)
		}
	}
	if x := s.Get("then"); x != nil && s.Has("if") && sa.pick(2, "viathen") == 0 {
		return sa.sat(sa.merge(sa.merge(s, s.Get("if")), x), depth, hops+1)
	}
	// decide a type
	ty := ""
	if tv := s.Get("type"); tv != nil {
		switch tv.K {
		case jv.Str:
			ty = tv.S
		case jv.Arr:
			if len(tv.A) > 0 {
				if e := tv.A[sa.pick(len(tv.A), "typepick")]; e.K == jv.Str {
					ty = e.S
				}
			}
		}
	}
	if ty == "" {
		switch {
		case hasAny(s, "properties", "required", "patternProperties", "additionalProperties", "minProperties", "propertyNames", "dependentRequired", "dependentSchemas", "dependencies", "unevaluatedProperties", "maxProperties"):
			ty = "object"
		case hasAny(s, "items", "prefixItems", "contains", "minItems", "uniqueItems", "unevaluatedItems", "additionalItems", "maxItems"):
			ty = "array"
		case hasAny(s, "minLength", "maxLength", "pattern"):
			ty = "string"
		case hasAny(s, "minimum", "maximum", "exclusiveMinimum", "exclusiveMaximum", "multipleOf"):
			ty = "number"
		default:
			return sa.free(min(depth, 2))
		}
	}
	switch ty {
	case "null":
		return jv.NullV()
	case "boolean":
		return jv.BoolV(sa.pick(2, "b") == 0)
	case "string":
		return sa.satString(s)
	case "integer", "number":
		return sa.satNumber(s, ty == "integer")
	case "array":
		return sa.satArray(s, depth, hops)
	case "object":
		return sa.satObject(s, depth, hops)
	}
	return sa.free(1)
}

func hasAny(s *jv.V, kws ...string) bool {
	for _, k := range kws {
		if s.Has(k) {
			return true
		}
	}
	return false
}

// merge overlays b's keywords on a copy of a (b wins); a crude conjunction.
func (sa *satisfier) merge(a, b *jv.V) *jv.V {
	out := jv.ObjV()
	for _, m := range a.O {
		if m.K == "allOf" || m.K == "anyOf" || m.K == "oneOf" || m.K == "if" || m.K == "then" || m.K == "else" {
			continue
		}
		out.Set(m.K, m.V)
	}
	if b != nil && b.K == jv.Obj {
		for _, m := range b.O {
			out.Set(m.K, m.V)
		}
	}
	return out
}

func intOf(s *jv.V, kw string, def int) int {
	x := s.Get(kw)
	if x == nil || x.K != jv.Num || !x.N.IsInt() || !x.N.Num().IsInt64() {
		return def
	}
	// (documents handed to Satisfy may have been through C10's type confusions: any integer can
	// stand here; sizes are only ever used to shape small instances)
	v := x.N.Num().Int64()
	if v < 0 {
		return 0
	}
	if v > 64 {
		return 64
	}
	return int(v)
}

func (sa *satisfier) satString(s *jv.V) *jv.V {
	// try a few pool strings
	start := sa.pick(len(jv.StrPool), "sstart")
	return jv.StrV(jv.StrPool[start])
}

func (sa *satisfier) satNumber(s *jv.V, integer bool) *jv.V {
	start := sa.pick(len(jv.NumPool), "nstart")
	for i := 0; i < len(jv.NumPool); i++ {
		v := jv.NumV(jv.NumPool[(start+i)%len(jv.NumPool)])
		if integer && !v.N.IsInt() {
			continue
		}
		if x := s.Get("minimum"); x != nil && x.K == jv.Num && v.N.Cmp(x.N) < 0 {
			continue
		}
		if x := s.Get("maximum"); x != nil && x.K == jv.Num && v.N.Cmp(x.N) > 0 {
			continue
		}
		if x := s.Get("exclusiveMinimum"); x != nil && x.K == jv.Num && v.N.Cmp(x.N) <= 0 {
			continue
		}
		if x := s.Get("exclusiveMaximum"); x != nil && x.K == jv.Num && v.N.Cmp(x.N) >= 0 {
			continue
		}
		return v
	}
	return jv.NumV("0")
}

func (sa *satisfier) satArray(s *jv.V, depth, hops int) *jv.V {
	lo, hi := intOf(s, "minItems", 0), intOf(s, "maxItems", 4)
	if hi < lo {
		hi = lo
	}
	n := lo
	if hi > lo {
		n = lo + sa.pick(hi-lo+1, "alen")
	}
	if n > 5 {
		n = 5
	}
	out := &jv.V{K: jv.Arr, A: []*jv.V{}}
	var prefix []*jv.V
	if p := s.Get("prefixItems"); p != nil && p.K == jv.Arr {
		prefix = p.A
	} else if p := s.Get("items"); p != nil && p.K == jv.Arr {
		prefix = p.A
	}
	var rest *jv.V
	if it := s.Get("items"); it != nil && it.K != jv.Arr {
		rest = it
	} else if it := s.Get("additionalItems"); it != nil {
		rest = it
	} else if it := s.Get("unevaluatedItems"); it != nil {
		rest = it
	}
	for i := 0; i < n; i++ {
		switch {
		case i < len(prefix):
			out.A = append(out.A, sa.satSub(prefix[i], depth-1, hops))
		case rest != nil:
			if rest.K == jv.Bool && !rest.B {
				return out
			}
			out.A = append(out.A, sa.satSub(rest, depth-1, hops))
		default:
			out.A = append(out.A, sa.free(1))
		}
	}
	if c := s.Get("contains"); c != nil && sa.pick(3, "addcontains") > 0 {
		e := sa.satSub(c, depth-1, hops)
		if len(out.A) > 0 && sa.pick(2, "replace") == 0 {
			out.A[sa.pick(len(out.A), "cpos")] = e
		} else {
			out.A = append(out.A, e)
		}
	}
	return out
}

func (sa *satisfier) satSub(s *jv.V, depth, hops int) *jv.V {
	if s == nil {
		return sa.free(1)
	}
	if s.K == jv.Bool {
		return sa.free(1)
	}
	return sa.sat(s, depth, hops)
}

func (sa *satisfier) satObject(s *jv.V, depth, hops int) *jv.V {
	out := jv.ObjV()
	props := s.Get("properties")
	if r := s.Get("required"); r != nil && r.K == jv.Arr {
		for _, e := range r.A {
			if e.K != jv.Str {
				continue
			}
			var ps *jv.V
			if props != nil {
				ps = props.Get(e.S)
			}
			out.Set(e.S, sa.satSub(ps, depth-1, hops))
		}
	}
	if props != nil && props.K == jv.Obj {
		for _, m := range props.O {
			if !out.Has(m.K) && sa.pick(2, "incprop") == 0 {
				out.Set(m.K, sa.satSub(m.V, depth-1, hops))
			}
		}
	}
	// extra properties now and then
	if sa.pick(3, "extra") == 0 {
		k := rapid.SampledFrom(jv.KeyPool).Draw(sa.t, "xkey")
		if !out.Has(k) {
			var ap *jv.V
			if a := s.Get("additionalProperties"); a != nil {
				ap = a
			}
			out.Set(k, sa.satSub(ap, depth-1, hops))
		}
	}
	lo := intOf(s, "minProperties", 0)
	for i := 0; len(out.O) < lo && i < 8; i++ {
		k := jv.KeyPool[(i+sa.pick(len(jv.KeyPool), "fill"))%len(jv.KeyPool)]
		if !out.Has(k) {
			out.Set(k, sa.free(0))
		}
	}
	return out
}

// Instances draws n instances for a schema document: about half schema-directed (satisfier
// plus 0-2 single-point mutations), the rest free draws from the pools.
func Instances(t *rapid.T, doc *jv.V, n int) []*jv.V {
	out := make([]*jv.V, 0, n)
	o := jv.Opts{MaxDepth: 3, MaxLen: 4}
	for i := 0; i < n; i++ {
		if rapid.IntRange(0, 2).Draw(t, "directed") > 0 {
			v := Satisfy(t, doc, doc, 3)
			for k := rapid.IntRange(0, 2).Draw(t, "nmut"); k > 0; k-- {
				v = jv.Mutate(t, v, o)
			}
			out = append(out, v)
		} else {
			out = append(out, jv.Gen(o).Draw(t, "freeinst"))
		}
	}
	return out
}
