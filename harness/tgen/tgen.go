// Package tgen generates Go types (as serialisable descriptors turned into reflect.Types
// with reflect.StructOf/SliceOf/ArrayOf/MapOf/PointerTo over a pool of declared named types)
// and values of those types, for the inference properties C04/C09/C16 and for C10.
package tgen

import (
	"fmt"
	"log/slog"
	"math"
	"math/big"
	"reflect"
	"strings"
	"time"
	"unicode"

	"pgregory.net/rapid"

	"verif/jv"
)

// ---- declared pool (reflect cannot create named types, embedded unexported types, or
// recursive types) ----------------------------------------------------------------------------

type (
	NInt     int
	NInt8    int8
	NUint16  uint16
	NUint64  uint64
	NFloat32 float32
	NFloat64 float64
	NStr     string
	NBool    bool
	NStrs    []string
	NPtrInt  *int
	NPtrStr  *NStr
	NInts    []int
	NMap     map[string]int
	NAnyMap  map[string]any
	NKey     string

	Inner struct {
		X int    `json:"x"`
		Y string `json:"y,omitempty"`
	}
	Base struct {
		ID     int `json:"id"`
		Name   string
		hidden int
	}
	Shadow struct {
		Base
		ID    string `json:"id"`
		Extra *Inner `json:"extra,omitempty"`
	}
	PtrEmbed struct {
		*Base
		Z bool `json:"z"`
	}
	Deep struct {
		Shadow
		Tags []string         `json:"tags"`
		M    map[string]Inner `json:"m,omitzero"`
	}
	unexp struct {
		U int `json:"u"`
		v int
	}
	WithUnexp struct {
		unexp
		W string
	}
	// an embedded struct of unexported type with a json name: an ordinary field to encoding/json
	TaggedUnexp struct {
		unexp `json:"ut"`
		Z     int `json:"z,omitempty"`
	}
	TaggedUnexpOmit struct {
		unexp `json:"uo,omitzero"`
		W     string
	}
	// embedded non-struct types of unexported name: invisible to encoding/json
	unexpInt       int
	unexpStrs      []string
	EmbUnexpScalar struct {
		unexpInt
		unexpStrs
		Z int `json:"z"`
	}
	// inside one struct: an omitted / named embedded struct followed by a flattened one
	DashTwo struct {
		DashInner `json:"-"`
		Inner
		Tail int `json:"tail"`
	}
	NamedTwo struct {
		Inner `json:"in"`
		Base
		Tail2 string `json:"tail2,omitempty"`
	}
	// V is declared by two embedded structs at the same depth (ambiguous: neither Go nor
	// encoding/json sees it), and once more one level further down (hidden by the ambiguity)
	AmbigA struct {
		V int `json:"v"`
		P int `json:"p"`
	}
	AmbigB struct {
		V string `json:"v"`
		Q int    `json:"q"`
	}
	AmbigC struct {
		V bool `json:"v"`
		R int  `json:"r"`
	}
	AmbigHold struct{ AmbigC }
	Ambig     struct {
		AmbigA
		AmbigB
		AmbigHold
		S int `json:"s"`
	}
	// interface types with methods: documented kind "interface"; the values here are always nil
	HasMethodIfaces struct {
		S fmt.Stringer `json:"s"`
		E error        `json:"e,omitempty"`
		N int          `json:"n"`
	}
	Mixed struct {
		A int8      `json:"a"`
		B *uint16   `json:"b"`
		C []float64 `json:"c,omitempty"`
		D [2]bool
		E map[string]*NInt `json:"e"`
		F any              `json:"f"`
		G NStr             `json:"-"`
		H int              `json:"-,"`
		I string           `json:",omitempty"`
		J uint32           `json:"j,omitzero"`
	}
	DashInner struct {
		Q int `json:"q"`
	}
	DashMid struct {
		DashInner `json:"-"`
		Rev       int `json:"rev,omitempty"`
		Name2     string
	}
	Described struct {
		P int    `json:"p" jsonschema:"the p field"`
		Q string `jsonschema:"q of the thing"`
	}

	// recursive
	Rec struct {
		V    int
		Next *Rec
	}
	RecA   struct{ B *RecB }
	RecB   struct{ A []RecA }
	RecMap struct{ M map[string]RecMap }
	// cycles that pass through arrays
	RecArr  [2][]RecArr
	RecArrP [1]*RecArrP
	RecArrM [3]map[string]RecArrM
	// cycles made of pointers only
	PSelf *PSelf
	PMutA *PMutB
	PMutB *PMutA

	// named unsupported non-struct types
	NFunc    func()
	NChan    chan int
	NIntMap  map[int]string
	NFuncs   []NFunc
	NComplex complex128

	// unsupported kinds at depth
	HasChan struct {
		X int
		C chan int
	}
	HasFunc struct {
		F func()
		Y string
	}
	HasComplex struct{ Z complex128 }
	HasIntMap  struct {
		M map[int]string
		N int
	}
	DeepBad struct {
		In struct{ Q []HasChan }
		OK int
	}
)

func init() { _ = Base{}.hidden; _ = unexp{}.v }

// PoolEntry describes one declared type.
type PoolEntry struct {
	Name  string
	T     reflect.Type
	Class string // scalar | container | struct | recursive | unsupported | std | stdptrrecv
}

var Pool = []PoolEntry{
	{"NInt", reflect.TypeFor[NInt](), "scalar"}, {"NInt8", reflect.TypeFor[NInt8](), "scalar"}, {"NUint16", reflect.TypeFor[NUint16](), "scalar"},
	{"NUint64", reflect.TypeFor[NUint64](), "scalar"}, {"NFloat32", reflect.TypeFor[NFloat32](), "scalar"}, {"NFloat64", reflect.TypeFor[NFloat64](), "scalar"},
	{"NStr", reflect.TypeFor[NStr](), "scalar"}, {"NBool", reflect.TypeFor[NBool](), "scalar"},
	{"NStrs", reflect.TypeFor[NStrs](), "container"}, {"NPtrInt", reflect.TypeFor[NPtrInt](), "container"}, {"NPtrStr", reflect.TypeFor[NPtrStr](), "container"}, {"NInts", reflect.TypeFor[NInts](), "container"}, {"NMap", reflect.TypeFor[NMap](), "container"}, {"NAnyMap", reflect.TypeFor[NAnyMap](), "container"},
	{"Inner", reflect.TypeFor[Inner](), "struct"}, {"Base", reflect.TypeFor[Base](), "struct"}, {"Shadow", reflect.TypeFor[Shadow](), "struct"},
	{"PtrEmbed", reflect.TypeFor[PtrEmbed](), "struct"}, {"Deep", reflect.TypeFor[Deep](), "struct"}, {"WithUnexp", reflect.TypeFor[WithUnexp](), "struct"},
	{"Mixed", reflect.TypeFor[Mixed](), "struct"}, {"Described", reflect.TypeFor[Described](), "struct"},
	{"TaggedUnexp", reflect.TypeFor[TaggedUnexp](), "struct"}, {"TaggedUnexpOmit", reflect.TypeFor[TaggedUnexpOmit](), "struct"},
	{"HasMethodIfaces", reflect.TypeFor[HasMethodIfaces](), "methodiface"},
	{"EmbUnexpScalar", reflect.TypeFor[EmbUnexpScalar](), "struct"},
	{"DashTwo", reflect.TypeFor[DashTwo](), "struct"}, {"NamedTwo", reflect.TypeFor[NamedTwo](), "struct"}, {"Ambig", reflect.TypeFor[Ambig](), "struct"},
	{"DashInner", reflect.TypeFor[DashInner](), "struct"}, {"DashMid", reflect.TypeFor[DashMid](), "struct"},
	{"Rec", reflect.TypeFor[Rec](), "recursive"}, {"RecA", reflect.TypeFor[RecA](), "recursive"}, {"RecB", reflect.TypeFor[RecB](), "recursive"}, {"RecMap", reflect.TypeFor[RecMap](), "recursive"},
	{"PSelf", reflect.TypeFor[PSelf](), "recursive"}, {"PMutA", reflect.TypeFor[PMutA](), "recursive"},
	{"RecArr", reflect.TypeFor[RecArr](), "recursive"}, {"RecArrP", reflect.TypeFor[RecArrP](), "recursive"}, {"RecArrM", reflect.TypeFor[RecArrM](), "recursive"},
	{"NFunc", reflect.TypeFor[NFunc](), "unsupported"}, {"NChan", reflect.TypeFor[NChan](), "unsupported"}, {"NIntMap", reflect.TypeFor[NIntMap](), "unsupported"},
	{"NFuncs", reflect.TypeFor[NFuncs](), "unsupported"}, {"NComplex", reflect.TypeFor[NComplex](), "unsupported"},
	{"HasChan", reflect.TypeFor[HasChan](), "unsupported"}, {"HasFunc", reflect.TypeFor[HasFunc](), "unsupported"}, {"HasComplex", reflect.TypeFor[HasComplex](), "unsupported"},
	{"HasIntMap", reflect.TypeFor[HasIntMap](), "unsupported"}, {"DeepBad", reflect.TypeFor[DeepBad](), "unsupported"},
	{"time.Duration", reflect.TypeFor[time.Duration](), "scalar"}, {"time.Month", reflect.TypeFor[time.Month](), "scalar"},
	{"time.Time", reflect.TypeFor[time.Time](), "std"}, {"slog.Level", reflect.TypeFor[slog.Level](), "std"},
	{"big.Int", reflect.TypeFor[big.Int](), "stdptrrecv"}, {"big.Rat", reflect.TypeFor[big.Rat](), "stdptrrecv"}, {"big.Float", reflect.TypeFor[big.Float](), "stdptrrecv"},
}

func poolByName(name string) (PoolEntry, bool) {
	for _, p := range Pool {
		if p.Name == name {
			return p, true
		}
	}
	return PoolEntry{}, false
}

// EmbeddablePool lists pool structs that reflect.StructOf can embed (exported, no methods).
var EmbeddablePool = []string{"Inner", "Base", "Shadow", "Described", "Mixed", "DashMid", "DashInner", "DashTwo", "NamedTwo", "Ambig"}

// ---- descriptors ------------------------------------------------------------------------------

// TD is a serialisable type descriptor.
type TD struct {
	K        string `json:"k"` // bool int int8 ... uint64 uintptr float32 float64 string iface ptr slice array map struct pool chan func complex128
	Pool     string `json:"pool,omitempty"`
	Elem     *TD    `json:"elem,omitempty"`
	Len      int    `json:"len,omitempty"`
	NamedKey bool   `json:"named_key,omitempty"` // map key is the named string type NKey
	IntKey   bool   `json:"int_key,omitempty"`   // map[int]T (unsupported)
	Fields   []FD   `json:"fields,omitempty"`
}

// FD is a struct field descriptor.
type FD struct {
	Name     string `json:"name"`
	HasTag   bool   `json:"has_tag,omitempty"`
	Tag      string `json:"tag,omitempty"`  // value of the json tag
	Desc     string `json:"desc,omitempty"` // value of the jsonschema tag
	T        *TD    `json:"t"`
	Embedded bool   `json:"embedded,omitempty"`
	Unexp    bool   `json:"unexported,omitempty"`
}

var basicKinds = map[string]reflect.Type{
	"bool": reflect.TypeFor[bool](), "int": reflect.TypeFor[int](), "int8": reflect.TypeFor[int8](), "int16": reflect.TypeFor[int16](),
	"int32": reflect.TypeFor[int32](), "int64": reflect.TypeFor[int64](), "uint": reflect.TypeFor[uint](), "uint8": reflect.TypeFor[uint8](),
	"uint16": reflect.TypeFor[uint16](), "uint32": reflect.TypeFor[uint32](), "uint64": reflect.TypeFor[uint64](), "uintptr": reflect.TypeFor[uintptr](),
	"float32": reflect.TypeFor[float32](), "float64": reflect.TypeFor[float64](), "string": reflect.TypeFor[string](), "iface": reflect.TypeFor[any](),
	"chan": reflect.TypeFor[chan int](), "func": reflect.TypeFor[func()](), "complex128": reflect.TypeFor[complex128](),
}

// Build turns a descriptor into a reflect.Type.
func Build(td *TD) (t reflect.Type, err error) {
	defer func() {
		if r := recover(); r != nil {
			err = fmt.Errorf("tgen.Build: %v", r)
		}
	}()
	return build(td), nil
}

func build(td *TD) reflect.Type {
	if t, ok := basicKinds[td.K]; ok {
		return t
	}
	switch td.K {
	case "pool":
		p, ok := poolByName(td.Pool)
		if !ok {
			panic("unknown pool type " + td.Pool)
		}
		return p.T
	case "ptr":
		return reflect.PointerTo(build(td.Elem))
	case "slice":
		return reflect.SliceOf(build(td.Elem))
	case "array":
		return reflect.ArrayOf(td.Len, build(td.Elem))
	case "map":
		kt := reflect.TypeFor[string]()
		if td.NamedKey {
			kt = reflect.TypeFor[NKey]()
		}
		if td.IntKey {
			kt = reflect.TypeFor[int]()
		}
		return reflect.MapOf(kt, build(td.Elem))
	case "struct":
		var fs []reflect.StructField
		for _, f := range td.Fields {
			sf := reflect.StructField{Name: f.Name, Type: build(f.T), Anonymous: f.Embedded}
			var tags []string
			if f.HasTag {
				tags = append(tags, fmt.Sprintf("json:%q", f.Tag))
			}
			if f.Desc != "" {
				tags = append(tags, fmt.Sprintf("jsonschema:%q", f.Desc))
			}
			sf.Tag = reflect.StructTag(strings.Join(tags, " "))
			if f.Unexp {
				sf.PkgPath = "verif/tgen"
			}
			fs = append(fs, sf)
		}
		return reflect.StructOf(fs)
	}
	panic("unknown kind " + td.K)
}

// ---- type generation --------------------------------------------------------------------------

// Opts for type generation.
type Opts struct {
	MaxDepth    int
	Unsupported bool // allow chan/func/complex/map[int] and the unsupported pool types
	Recursive   bool // allow the recursive pool types
	Std         bool // allow standard-library marshaler types
	NoIface     bool
	Methods     bool // allow the pool struct whose fields are interface types with methods (error, fmt.Stringer)
	// KnownFindings switches on the shapes behind open known findings (low probability).
	NameConflicts bool // fields that share a Go name but not a JSON name, or vice versa (incl. duplicates at one level)
	BigInt        bool // math/big.Int (inferred as string, marshals as number)
}

var (
	goodTagNames = []string{"a", "b", "c", "d", "id", "x-y", "b_c", "Name", "ID", "1", "$ref", "a b", "é"}
	badTagNames  = []string{"a'b", "q\"q", "back\\slash"} // characters encoding/json rejects in a tag name
	fieldNames   = []string{"A", "B", "C", "D", "E", "F", "G", "Name", "ID", "X"}
)

type tg struct {
	t *rapid.T
	o Opts
}

func (g *tg) n(k int, l string) int { return rapid.IntRange(0, k-1).Draw(g.t, l) }

// GenTD draws a type descriptor.
func GenTD(t *rapid.T, o Opts) *TD {
	g := &tg{t: t, o: o}
	var td *TD
	if o.MaxDepth > 0 && g.n(4, "topstruct") > 0 {
		td = g.structTD(o.MaxDepth, true) // most interesting types are structs
		if g.n(4, "topptr") == 0 {
			td = &TD{K: "ptr", Elem: td}
		}
	} else {
		td = g.td(o.MaxDepth, true)
	}
	if !o.NameConflicts {
		StripNameConflicts(td)
	}
	return td
}

func (g *tg) scalar() *TD {
	ks := []string{"bool", "int", "int8", "int16", "int32", "int64", "uint", "uint8", "uint16", "uint32", "uint64", "uintptr", "float32", "float64", "string", "string", "int"}
	return &TD{K: ks[g.n(len(ks), "scalar")]}
}

func (g *tg) poolType(classes ...string) *TD {
	var c []string
	for _, p := range Pool {
		for _, cl := range classes {
			if p.Class == cl {
				if p.Name == "big.Int" && !g.o.BigInt {
					continue
				}
				c = append(c, p.Name)
			}
		}
	}
	return &TD{K: "pool", Pool: c[g.n(len(c), "pool")]}
}

// addressable: whether a value at this position is addressable when the top-level value is
// marshalled through a pointer (matters for pointer-receiver marshalers held by value).
func (g *tg) td(depth int, addressable bool) *TD {
	k := g.n(20, "kind")
	if depth <= 0 && k >= 6 && k <= 13 {
		k = 0
	}
	switch {
	case k <= 3:
		return g.scalar()
	case k == 4:
		return g.poolType("scalar", "container")
	case k == 5:
		if g.o.NoIface {
			return g.scalar()
		}
		return &TD{K: "iface"}
	case k == 6 || k == 7:
		return &TD{K: "ptr", Elem: g.td(depth-1, true)}
	case k == 8 || k == 9:
		e := g.td(depth-1, true)
		if e.K == "uint8" { // []byte is outside the domain (base64)
			e = &TD{K: "uint16"}
		}
		if e.K == "pool" && e.Pool == "NUint8" {
			e = &TD{K: "uint16"}
		}
		return &TD{K: "slice", Elem: e}
	case k == 10:
		return &TD{K: "array", Len: g.n(4, "alen"), Elem: g.td(depth-1, addressable)}
	case k == 11:
		return &TD{K: "map", NamedKey: g.n(3, "namedkey") == 0, Elem: g.td(depth-1, false)}
	case k == 12 || k == 13 || k == 14:
		if depth <= 0 {
			return g.structPool()
		}
		return g.structTD(depth, addressable)
	case k == 15:
		return g.structPool()
	case k == 16:
		if g.o.Std {
			if addressable && g.n(2, "ptrrecv") == 0 {
				return g.poolType("stdptrrecv", "std")
			}
			if g.n(2, "ptrstd") == 0 {
				return &TD{K: "ptr", Elem: g.poolType("stdptrrecv", "std")}
			}
			return g.poolType("std")
		}
		return g.scalar()
	case k == 17:
		if g.o.Recursive {
			return g.poolType("recursive")
		}
		return g.scalar()
	case k == 18:
		if g.o.Unsupported {
			switch g.n(5, "unsup") {
			case 0:
				return &TD{K: "chan"}
			case 1:
				return &TD{K: "func"}
			case 2:
				return &TD{K: "complex128"}
			case 3:
				return &TD{K: "map", IntKey: true, Elem: g.scalar()}
			default:
				return g.poolType("unsupported")
			}
		}
		return g.scalar()
	default:
		return g.scalar()
	}
}

func (g *tg) structPool() *TD {
	if g.o.Methods && !g.o.NoIface {
		return g.poolType("struct", "methodiface")
	}
	return g.poolType("struct")
}

func (g *tg) tag() (bool, string) {
	switch g.n(10, "tagkind") {
	case 0, 1, 2:
		return false, ""
	case 3:
		return true, "-"
	case 4:
		return true, "-,"
	}
	name := ""
	switch g.n(8, "tagname") {
	case 0:
		name = "" // keep the Go name
	case 1:
		name = rapid.SampledFrom(badTagNames).Draw(g.t, "badtagname")
	default:
		name = rapid.SampledFrom(goodTagNames).Draw(g.t, "tagname")
	}
	var opts []string
	for _, o := range []string{"omitempty", "omitzero", "unknownopt", " omitempty"} {
		if g.n(5, "opt-"+o) == 0 {
			opts = append(opts, o)
		}
	}
	if len(opts) == 0 {
		return true, name
	}
	return true, name + "," + strings.Join(opts, ",")
}

func (g *tg) structTD(depth int, addressable bool) *TD {
	td := &TD{K: "struct"}
	n := g.n(6, "nfields")
	used := map[string]bool{}
	usedJSON := map[string]bool{}
	for i := 0; i < n; i++ {
		if g.n(7, "embed") == 0 {
			pn := rapid.SampledFrom(EmbeddablePool).Draw(g.t, "embedtype")
			if used[pn] {
				continue
			}
			used[pn] = true
			f := FD{Name: pn, Embedded: true, T: &TD{K: "pool", Pool: pn}}
			if g.n(3, "embedptr") == 0 {
				f.T = &TD{K: "ptr", Elem: f.T}
			}
			if strings.HasPrefix(pn, "Dash") && g.n(2, "dashtag") == 0 {
				// nested `json:"-"` embeddings: everything below must stay invisible
				f.HasTag, f.Tag = true, "-"
			} else if g.n(4, "embedtag") == 0 {
				// a json tag on an embedded struct: a name makes it an ordinary field, "-" omits it
				f.HasTag = true
				// (pn and pn+",omitempty": a tag that spells out the field's own Go name still makes it an ordinary field)
				f.Tag = rapid.SampledFrom([]string{"in", "-", ",omitempty", "in,omitempty", "a'b", pn, pn + ",omitempty"}).Draw(g.t, "embedtagval")
			}
			td.Fields = append(td.Fields, f)
			continue
		}
		name := rapid.SampledFrom(fieldNames).Draw(g.t, "fname")
		if used[name] {
			continue
		}
		used[name] = true
		f := FD{Name: name, T: g.td(depth-1, addressable)}
		if len(td.Fields) > 0 && g.n(4, "repeat-type") == 0 {
			// the same type occurring several times in one call (plain, behind a pointer, in a slice)
			prev := td.Fields[g.n(len(td.Fields), "repeat-of")]
			if !prev.Embedded {
				base := prev.T
				for base.K == "ptr" {
					base = base.Elem
				}
				switch g.n(4, "repeat-as") {
				case 0:
					f.T = base
					if !addressable && mentionsPtrRecvMarshaler(base) {
						// stripped out of its pointer in a non-addressable position (below a map value):
						// outside the domain by value, so it stays behind a pointer
						f.T = &TD{K: "ptr", Elem: base}
					}
				case 1:
					f.T = &TD{K: "ptr", Elem: base}
				case 2:
					if base.K != "uint8" {
						f.T = &TD{K: "slice", Elem: base}
					}
				default:
					if mentionsPtrRecvMarshaler(base) {
						// map values are not addressable: a pointer-receiver marshaler held by value there
						// is outside the domain, so it goes behind a pointer
						f.T = &TD{K: "map", Elem: &TD{K: "ptr", Elem: base}}
					} else {
						f.T = &TD{K: "map", Elem: base}
					}
				}
			}
		}
		if g.n(12, "unexported") == 0 {
			f.Name = "u" + name
			f.Unexp = true
			f.T = g.scalar()
		}
		f.HasTag, f.Tag = g.tag()
		if g.n(8, "desc") == 0 {
			f.Desc = rapid.SampledFrom([]string{"a description", "x", "with, comma"}).Draw(g.t, "desc")
		}
		jn := JSONName(f)
		if jn != "" && usedJSON[jn] && !g.o.NameConflicts {
			// two fields with the same JSON name at the same depth (encoding/json drops both): known finding shape
			continue
		}
		usedJSON[jn] = true
		td.Fields = append(td.Fields, f)
	}
	return td
}

func mentionsPtrRecvMarshaler(td *TD) bool {
	found := false
	td.Walk(func(x *TD) {
		if x.K == "pool" {
			if p, ok := poolByName(x.Pool); ok && p.Class == "stdptrrecv" {
				found = true
			}
		}
	})
	return found
}

// PtrRecvByValueNonAddressable reports whether td holds a type whose marshaler has a pointer
// receiver (math/big.Rat, ...) by value in a position encoding/json cannot take the address of
// (below a map value, not behind a pointer or slice): there encoding/json ignores the marshaler,
// a well-known quirk that puts the type outside C04's domain.
func PtrRecvByValueNonAddressable(td *TD) bool {
	var walk func(x *TD, addr bool) bool
	walk = func(x *TD, addr bool) bool {
		if x == nil {
			return false
		}
		switch x.K {
		case "pool":
			if p, ok := poolByName(x.Pool); ok && p.Class == "stdptrrecv" {
				return !addr
			}
			return false
		case "ptr", "slice":
			return walk(x.Elem, true)
		case "array":
			return walk(x.Elem, addr)
		case "map":
			return walk(x.Elem, false)
		case "struct":
			for i := range x.Fields {
				if walk(x.Fields[i].T, addr) {
					return true
				}
			}
		}
		return false
	}
	return walk(td, true)
}

// EmbeddedStruct reports whether sf is an embedded field of struct type (or pointer to struct).
func EmbeddedStruct(sf reflect.StructField) bool {
	if !sf.Anonymous {
		return false
	}
	t := sf.Type
	if t.Kind() == reflect.Pointer {
		t = t.Elem()
	}
	return t.Kind() == reflect.Struct
}

// validTagName mirrors encoding/json's isValidTag.
func validTagName(s string) bool {
	if s == "" {
		return false
	}
	for _, c := range s {
		switch {
		case strings.ContainsRune("!#$%&()*+-./:;<=>?@[]^_{|}~ ", c):
			// Backslash and quote chars are reserved, but otherwise any punctuation chars are allowed in a tag name.
		case !unicode.IsLetter(c) && !unicode.IsDigit(c):
			return false
		}
	}
	return true
}

// ValidTagName is the exported form of validTagName.
func ValidTagName(s string) bool { return validTagName(s) }

// JSONName returns the name encoding/json gives a (non-embedded) field, "" if it is omitted.
// Own small tag parser, used by the oracles of C16.
func JSONName(f FD) string {
	if f.Unexp {
		return ""
	}
	if !f.HasTag {
		return f.Name
	}
	if f.Tag == "-" {
		return ""
	}
	name, _, _ := strings.Cut(f.Tag, ",")
	if !validTagName(name) {
		return f.Name
	}
	return name
}

// TagOptions returns the option list of a json tag.
func TagOptions(f FD) []string {
	if !f.HasTag {
		return nil
	}
	_, rest, found := strings.Cut(f.Tag, ",")
	if !found {
		return nil
	}
	return strings.Split(rest, ",")
}

// ---- value generation ---------------------------------------------------------------------------

// VOpts for values.
type VOpts struct {
	Full bool // every field/element non-zero, every pointer non-nil, containers non-empty
}

type vg struct {
	t *rapid.T
	o VOpts
}

func (g *vg) n(k int, l string) int {
	if g.t == nil {
		return 0
	}
	return rapid.IntRange(0, k-1).Draw(g.t, l)
}

// Value fills a new value of type typ.
func Value(t *rapid.T, typ reflect.Type, o VOpts) reflect.Value {
	g := &vg{t: t, o: o}
	v := reflect.New(typ).Elem()
	g.fill(v, 0, false)
	return v
}

var strPool = []string{"", "a", "b", "ab", "é", "日本", "x y", "\xff", "0", "null"}

// minimal gives v the smallest value that is still inside C04's domain: maps empty but not nil,
// embedded pointers allocated, everything else zero (nil pointers and nil slices are in the domain).
func (g *vg) minimal(v reflect.Value, embeddedPtr bool) {
	switch v.Kind() {
	case reflect.Map:
		if v.CanSet() {
			v.Set(reflect.MakeMap(v.Type()))
		}
	case reflect.Pointer:
		if embeddedPtr && v.CanSet() {
			p := reflect.New(v.Type().Elem())
			g.minimal(p.Elem(), false)
			v.Set(p)
		}
	case reflect.Array:
		for i := 0; i < v.Len(); i++ {
			g.minimal(v.Index(i), false)
		}
	case reflect.Struct:
		if stdMarshalerTypes[v.Type()] {
			return
		}
		for i := 0; i < v.NumField(); i++ {
			sf := v.Type().Field(i)
			if !sf.IsExported() && !sf.Anonymous {
				continue
			}
			g.minimal(v.Field(i), sf.Anonymous && sf.Type.Kind() == reflect.Pointer)
		}
	}
}

func (g *vg) fill(v reflect.Value, depth int, embeddedPtr bool) {
	if depth > 8 {
		// very deep types: stop drawing, but stay inside the domain (a zero value would hold nil maps)
		g.minimal(v, embeddedPtr)
		return
	}
	t := v.Type()
	// special types first
	switch t {
	case reflect.TypeFor[time.Time]():
		sec := []int64{0, 1, 1700000000, -62135596800, 253402300799}[g.n(5, "time")]
		if g.o.Full {
			sec = 1700000000
		}
		v.Set(reflect.ValueOf(time.Unix(sec, 0).UTC()))
		return
	case reflect.TypeFor[big.Int]():
		x := new(big.Int).SetInt64([]int64{0, 1, -5, math.MaxInt64}[g.n(4, "bigint")])
		if g.o.Full {
			x.SetInt64(7)
		}
		v.Set(reflect.ValueOf(*x))
		return
	case reflect.TypeFor[big.Rat]():
		v.Set(reflect.ValueOf(*big.NewRat(int64(1+g.n(3, "ratn")), 3)))
		return
	case reflect.TypeFor[big.Float]():
		v.Set(reflect.ValueOf(*big.NewFloat(float64(1+g.n(3, "bigf")) / 4)))
		return
	}
	switch t.Kind() {
	case reflect.Bool:
		v.SetBool(g.o.Full || g.n(2, "bool") == 0)
	case reflect.Int, reflect.Int8, reflect.Int16, reflect.Int32, reflect.Int64:
		bits := t.Bits()
		min, max := int64(-1)<<(bits-1), int64(1)<<(bits-1)-1
		if t == reflect.TypeFor[slog.Level]() {
			min, max = -8, 12
		}
		c := []int64{0, 1, -1, min, max, max - 1, min + 1, 7}[g.n(8, "int")]
		if g.o.Full && c == 0 {
			c = 3
		}
		v.SetInt(c)
	case reflect.Uint, reflect.Uint8, reflect.Uint16, reflect.Uint32, reflect.Uint64, reflect.Uintptr:
		bits := t.Bits()
		max := uint64(math.MaxUint64)
		if bits < 64 {
			max = uint64(1)<<bits - 1
		}
		c := []uint64{0, 1, max, max - 1, 7}[g.n(5, "uint")]
		if g.o.Full && c == 0 {
			c = 3
		}
		v.SetUint(c)
	case reflect.Float32:
		c := []float64{0, 1, -1.5, 0.25, math.MaxFloat32, -math.MaxFloat32, math.SmallestNonzeroFloat32, 1e10}[g.n(8, "f32")]
		if g.o.Full && c == 0 {
			c = 2.5
		}
		v.SetFloat(c)
	case reflect.Float64:
		c := []float64{0, 1, -1.5, 0.25, math.MaxFloat64, -math.MaxFloat64, 5e-324, 1e300, 9007199254740993}[g.n(9, "f64")]
		if g.o.Full && c == 0 {
			c = 2.5
		}
		v.SetFloat(c)
	case reflect.String:
		s := strPool[g.n(len(strPool), "str")]
		if g.o.Full && s == "" {
			s = "s"
		}
		v.SetString(s)
	case reflect.Interface:
		if !g.o.Full && g.n(4, "nilface") == 0 {
			return
		}
		if t.NumMethod() != 0 {
			return
		}
		var x any
		if g.t != nil {
			x = jv.Gen(jv.Opts{MaxDepth: 2, MaxLen: 2}).Draw(g.t, "ifaceval").ToAny()
		}
		if x == nil {
			if g.o.Full {
				x = "i"
			} else {
				return
			}
		}
		v.Set(reflect.ValueOf(x))
	case reflect.Pointer:
		if !g.o.Full && !embeddedPtr && g.n(4, "nilptr") == 0 {
			return
		}
		p := reflect.New(t.Elem())
		g.fill(p.Elem(), depth+1, false)
		v.Set(p)
	case reflect.Slice:
		k := g.n(5, "slicelen") - 1 // -1 = nil
		if g.o.Full {
			k = 1
		}
		if k < 0 {
			return
		}
		s := reflect.MakeSlice(t, k, k)
		for i := 0; i < k; i++ {
			g.fill(s.Index(i), depth+1, false)
		}
		v.Set(s)
	case reflect.Array:
		for i := 0; i < v.Len(); i++ {
			g.fill(v.Index(i), depth+1, false)
		}
	case reflect.Map:
		m := reflect.MakeMap(t) // non-nil maps only (nil maps are outside the domain)
		k := g.n(3, "maplen")
		if g.o.Full {
			k = 1
		}
		if t.Key().Kind() == reflect.String {
			for i := 0; i < k; i++ {
				key := reflect.New(t.Key()).Elem()
				key.SetString([]string{"k", "a", "é", "", "x y"}[(i+g.n(5, "mapkey"))%5])
				e := reflect.New(t.Elem()).Elem()
				g.fill(e, depth+1, false)
				m.SetMapIndex(key, e)
			}
		}
		v.Set(m)
	case reflect.Struct:
		for i := 0; i < t.NumField(); i++ {
			sf := t.Field(i)
			if !sf.IsExported() && !sf.Anonymous {
				continue
			}
			if !sf.IsExported() && sf.Type.Kind() != reflect.Struct {
				// an embedded non-struct type of unexported name cannot be set (and encoding/json
				// does not look at it)
				continue
			}
			fv := v.Field(i)
			if sf.Anonymous && fv.Kind() == reflect.Struct {
				// exported fields promoted from an embedded struct are settable even when the
				// embedded field itself is unexported
				g.fill(fv, depth+1, false)
				continue
			}
			if !fv.CanSet() {
				continue
			}
			g.fill(fv, depth+1, sf.Anonymous && sf.Type.Kind() == reflect.Pointer)
		}
	}
}

// ---- own predicates about types (from the documentation of For) --------------------------------

var stdMarshalerTypes = map[reflect.Type]bool{
	reflect.TypeFor[time.Time](): true, reflect.TypeFor[slog.Level](): true,
	reflect.TypeFor[big.Int](): true, reflect.TypeFor[big.Rat](): true, reflect.TypeFor[big.Float](): true,
}

// IsStdMarshaler reports whether t is one of the standard-library marshaler types For lists.
func IsStdMarshaler(t reflect.Type) bool { return stdMarshalerTypes[t] }

// visibleJSONFields lists the fields of struct type t that take part in JSON (exported, not
// tagged "-"), descending into embedded structs.
func visibleJSONFields(t reflect.Type) []reflect.StructField {
	var out []reflect.StructField
	for i := 0; i < t.NumField(); i++ {
		sf := t.Field(i)
		if sf.Anonymous {
			et := sf.Type
			if et.Kind() == reflect.Pointer {
				et = et.Elem()
			}
			tag := sf.Tag.Get("json")
			tn, _, _ := strings.Cut(tag, ",")
			if tag == "-" {
				continue
			}
			if et.Kind() == reflect.Struct && !validTagName(tn) {
				out = append(out, visibleJSONFields(et)...)
				continue
			}
		}
		if !sf.IsExported() && !EmbeddedStruct(sf) {
			// (an embedded struct that got this far carries a json name: an ordinary field to
			// encoding/json even when its type is unexported)
			continue
		}
		if tag, ok := sf.Tag.Lookup("json"); ok && tag == "-" {
			continue
		}
		out = append(out, sf)
	}
	return out
}

// Supported: t contains none of the kinds For documents as unsupported (maps with a
// non-string key, functions, channels, complex numbers, unsafe pointers) at any depth.
// overridden types (TypeSchemas keys) count as supported whatever they contain.
// Deref follows pointers. ptrCycle: the pointers never end (type P *P, or A *B with B *A).
func Deref(t reflect.Type) (elem reflect.Type, ptrCycle bool) {
	seen := map[reflect.Type]bool{}
	for t.Kind() == reflect.Pointer {
		if t.Name() != "" {
			if seen[t] {
				return t, true
			}
			seen[t] = true
		}
		t = t.Elem()
	}
	return t, false
}

func Supported(t reflect.Type, overridden map[reflect.Type]bool) bool {
	return supported(t, overridden, map[reflect.Type]bool{})
}

func supported(t reflect.Type, ov map[reflect.Type]bool, seen map[reflect.Type]bool) bool {
	t, ptrCycle := Deref(t)
	if ptrCycle {
		return true // nothing unsupported in it; Cyclic reports it
	}
	if stdMarshalerTypes[t] || ov[t] {
		return true
	}
	if seen[t] {
		return true
	}
	seen[t] = true
	defer delete(seen, t)
	switch t.Kind() {
	case reflect.Chan, reflect.Func, reflect.Complex64, reflect.Complex128, reflect.UnsafePointer:
		return false
	case reflect.Map:
		if t.Key().Kind() != reflect.String {
			return false
		}
		return supported(t.Elem(), ov, seen)
	case reflect.Slice, reflect.Array:
		return supported(t.Elem(), ov, seen)
	case reflect.Struct:
		for _, sf := range visibleJSONFields(t) {
			if !supported(sf.Type, ov, seen) {
				return false
			}
		}
	}
	return true
}

// Cyclic: some named type is reachable from itself.
func Cyclic(t reflect.Type, overridden map[reflect.Type]bool) bool {
	return cyclic(t, overridden, map[reflect.Type]bool{})
}

func cyclic(t reflect.Type, ov map[reflect.Type]bool, path map[reflect.Type]bool) bool {
	t, ptrCycle := Deref(t)
	if ptrCycle {
		return true
	}
	if stdMarshalerTypes[t] || ov[t] {
		return false
	}
	if t.Name() != "" {
		if path[t] {
			return true
		}
		path[t] = true
		defer delete(path, t)
	}
	switch t.Kind() {
	case reflect.Map, reflect.Slice, reflect.Array:
		return cyclic(t.Elem(), ov, path)
	case reflect.Struct:
		for _, sf := range visibleJSONFields(t) {
			if cyclic(sf.Type, ov, path) {
				return true
			}
		}
	}
	return false
}

// Describe renders a descriptor compactly (for samples and class counters).
func (td *TD) String() string {
	switch td.K {
	case "pool":
		return td.Pool
	case "ptr":
		return "*" + td.Elem.String()
	case "slice":
		return "[]" + td.Elem.String()
	case "array":
		return fmt.Sprintf("[%d]%s", td.Len, td.Elem.String())
	case "map":
		k := "string"
		if td.NamedKey {
			k = "NKey"
		}
		if td.IntKey {
			k = "int"
		}
		return "map[" + k + "]" + td.Elem.String()
	case "struct":
		var fs []string
		for _, f := range td.Fields {
			s := f.Name + " " + f.T.String()
			if f.Embedded {
				s = f.T.String()
			}
			if f.HasTag {
				s += fmt.Sprintf(" `json:%q`", f.Tag)
			}
			fs = append(fs, s)
		}
		return "struct{" + strings.Join(fs, "; ") + "}"
	case "iface":
		return "any"
	}
	return td.K
}

// Walk visits every descriptor node.
func (td *TD) Walk(f func(*TD)) {
	if td == nil {
		return
	}
	f(td)
	td.Elem.Walk(f)
	for i := range td.Fields {
		td.Fields[i].T.Walk(f)
	}
}

// Depth of nesting.
func (td *TD) Depth() int {
	d := 0
	if td.Elem != nil {
		d = 1 + td.Elem.Depth()
	}
	for _, f := range td.Fields {
		if x := 1 + f.T.Depth(); x > d {
			d = x
		}
	}
	return d
}

// ---- Go-name vs JSON-name conflicts ----------------------------------------------------------------
//
// encoding/json decides which of several candidate fields wins by JSON name (depth, then
// taggedness); Go decides promotion by Go name. The two agree exactly when, over all own and
// promoted fields of a struct, "same Go name" and "same JSON name" are the same relation.

type nameRec struct{ goName, jsonName string }

func fieldRecs(t reflect.Type, out *[]nameRec) { fieldRecs2(t, out, false) }

// suppressed: the fields are promoted by Go's rules (and hide deeper fields of the same Go
// name) but are not emitted at this level by encoding/json (they sit in an embedded struct
// whose json tag names it or omits it).
func fieldRecs2(t reflect.Type, out *[]nameRec, suppressed bool) {
	if t.Kind() == reflect.Pointer {
		t = t.Elem()
	}
	if t.Kind() != reflect.Struct {
		return
	}
	for i := 0; i < t.NumField(); i++ {
		sf := t.Field(i)
		if sf.Anonymous {
			et := sf.Type
			if et.Kind() == reflect.Pointer {
				et = et.Elem()
			}
			tag := sf.Tag.Get("json")
			tn, _, _ := strings.Cut(tag, ",")
			if et.Kind() == reflect.Struct {
				named := validTagName(tn)
				fieldRecs2(et, out, suppressed || tag == "-" || named)
				if tag == "-" || !named {
					continue
				}
			} else if tag == "-" {
				continue
			}
		}
		if !sf.IsExported() && !EmbeddedStruct(sf) {
			// (an embedded struct that got this far carries a json name: an ordinary field to
			// encoding/json even when its type is unexported)
			continue
		}
		if suppressed {
			*out = append(*out, nameRec{sf.Name, fmt.Sprintf("\x00suppressed-%d", len(*out))})
			continue
		}
		name := sf.Name
		if tag, ok := sf.Tag.Lookup("json"); ok {
			if tag == "-" {
				// ignored by encoding/json, but it still hides same-named promoted fields by Go's rules
				*out = append(*out, nameRec{sf.Name, fmt.Sprintf("\x00omitted-%d", len(*out))})
				continue
			}
			if n, _, _ := strings.Cut(tag, ","); validTagName(n) {
				name = n
			}
		}
		*out = append(*out, nameRec{sf.Name, name})
	}
}

// NameConflict reports whether struct type t (at this level, including everything promoted
// into it) has two fields that share a Go name but not a JSON name, or a JSON name but not a
// Go name. It does not descend into non-embedded field types.
func NameConflict(t reflect.Type) bool {
	var recs []nameRec
	fieldRecs(t, &recs)
	for i := range recs {
		for j := i + 1; j < len(recs); j++ {
			if (recs[i].goName == recs[j].goName) != (recs[i].jsonName == recs[j].jsonName) {
				return true
			}
		}
	}
	return false
}

// AnyNameConflict checks every struct level reachable from t.
func AnyNameConflict(t reflect.Type) bool {
	return anyNameConflict(t, map[reflect.Type]bool{})
}

func anyNameConflict(t reflect.Type, seen map[reflect.Type]bool) bool {
	for t.Kind() == reflect.Pointer || t.Kind() == reflect.Slice || t.Kind() == reflect.Array || t.Kind() == reflect.Map {
		if t.Name() != "" {
			// named containers and pointers can close a cycle without passing through a struct
			// (type P *P, type L []L)
			if seen[t] {
				return false
			}
			seen[t] = true
		}
		t = t.Elem()
	}
	if t.Kind() != reflect.Struct || seen[t] || stdMarshalerTypes[t] {
		return false
	}
	seen[t] = true
	if NameConflict(t) {
		return true
	}
	for i := 0; i < t.NumField(); i++ {
		if anyNameConflict(t.Field(i).Type, seen) {
			return true
		}
	}
	return false
}

// StripNameConflicts removes own (non-embedded) fields from generated struct descriptors until
// no level has a Go-name/JSON-name conflict. Returns the number of fields removed.
func StripNameConflicts(td *TD) int {
	removed := 0
	td.Walk(func(x *TD) {
		if x.K != "struct" {
			return
		}
		for {
			t, err := Build(x)
			if err != nil || !NameConflict(t) {
				return
			}
			// drop the last own non-embedded field; if none is left, drop the last embedded one
			idx := -1
			for i := len(x.Fields) - 1; i >= 0; i-- {
				if !x.Fields[i].Embedded {
					idx = i
					break
				}
			}
			if idx < 0 {
				idx = len(x.Fields) - 1
			}
			if idx < 0 {
				return
			}
			x.Fields = append(x.Fields[:idx:idx], x.Fields[idx+1:]...)
			removed++
		}
	})
	return removed
}

// DroppedWhenIgnored: with IgnoreInvalidTypes, a field (or element) of this type is left out:
// an unsupported kind itself, or a slice/array/map whose element type is left out. A struct
// is never left out as a whole (only its offending fields are).
func DroppedWhenIgnored(t reflect.Type, ov map[reflect.Type]bool) bool {
	t, ptrCycle := Deref(t)
	if ptrCycle {
		return false
	}
	if stdMarshalerTypes[t] || ov[t] {
		return false
	}
	switch t.Kind() {
	case reflect.Chan, reflect.Func, reflect.Complex64, reflect.Complex128, reflect.UnsafePointer:
		return true
	case reflect.Map:
		if t.Key().Kind() != reflect.String {
			return true
		}
		return DroppedWhenIgnored(t.Elem(), ov)
	case reflect.Slice, reflect.Array:
		return DroppedWhenIgnored(t.Elem(), ov)
	}
	return false
}
