package repr

import "pgregory.net/rapid"

// RapidChooser draws every choice from rapid (so representations shrink towards canonical).
type RapidChooser struct{ T *rapid.T }

func (r RapidChooser) Pick(n int, label string) int {
	return rapid.IntRange(0, n-1).Draw(r.T, label)
}
