// Package repr re-types one canonical JSON value (jv.V) as a Go value in any of the
// representations that encoding/json would marshal to the same document: numbers as
// float64 / any sized int or uint / float32 (when exact) / json.Number / named numeric types;
// arrays as []any, []T, [N]T, named slices; objects as map[string]any, map[string]T,
// maps with a named string key type; null as nil, a nil pointer or a nil interface element;
// any node behind 0..2 pointers and/or an interface.
//
// Nil slices, nil maps and structs are never produced (outside the properties' domain).
//
// All choices go through a Chooser, so a representation is reproducible from the logged
// choice list (replay files) and shrinkable when the Chooser is rapid-backed.
package repr

import (
	"encoding/json"
	"fmt"
	"math"
	"math/big"
	"reflect"
	"strconv"

	"verif/jv"
)

// Chooser picks an integer in [0,n).
type Chooser interface{ Pick(n int, label string) int }

// Script replays a recorded list; once exhausted it answers 0.
type Script struct {
	Seq []int
	i   int
}

func (s *Script) Pick(n int, _ string) int {
	if s.i >= len(s.Seq) {
		return 0
	}
	v := s.Seq[s.i]
	s.i++
	if v >= n || v < 0 {
		return 0
	}
	return v
}

// Logger wraps a Chooser and logs every answer.
type Logger struct {
	In  Chooser
	Log []int
}

func (l *Logger) Pick(n int, label string) int {
	v := l.In.Pick(n, label)
	l.Log = append(l.Log, v)
	return v
}

// Canonical always picks 0: []any / map[string]any / float64 / string / bool / nil.
type Canonical struct{}

func (Canonical) Pick(int, string) int { return 0 }

// Named types (reflect cannot create them).
type (
	MyInt      int
	MyInt8     int8
	MyUint16   uint16
	MyFloat    float64
	MyStr      string
	MyBool     bool
	AnySlice   []any
	IntSlice   []int
	AnyMap     map[string]any
	MyStrMap   map[MyStr]any
	NumberList []json.Number
)

var (
	tAny     = reflect.TypeFor[any]()
	tNumber  = reflect.TypeFor[json.Number]()
	numTypes = []reflect.Type{
		reflect.TypeFor[float64](), // index 0 = canonical
		reflect.TypeFor[int](), reflect.TypeFor[int8](), reflect.TypeFor[int16](), reflect.TypeFor[int32](), reflect.TypeFor[int64](),
		reflect.TypeFor[uint](), reflect.TypeFor[uint8](), reflect.TypeFor[uint16](), reflect.TypeFor[uint32](), reflect.TypeFor[uint64](), reflect.TypeFor[uintptr](),
		reflect.TypeFor[float32](), tNumber,
		reflect.TypeFor[MyInt](), reflect.TypeFor[MyInt8](), reflect.TypeFor[MyUint16](), reflect.TypeFor[MyFloat](),
	}
	strTypes    = []reflect.Type{reflect.TypeFor[string](), reflect.TypeFor[MyStr]()}
	boolTypes   = []reflect.Type{reflect.TypeFor[bool](), reflect.TypeFor[MyBool]()}
	keyTypes    = []reflect.Type{reflect.TypeFor[string](), reflect.TypeFor[MyStr]()}
	nilPtrTypes = []reflect.Type{
		reflect.TypeFor[*int](), reflect.TypeFor[*string](), reflect.TypeFor[*map[string]any](), reflect.TypeFor[*any](), reflect.TypeFor[*[]any](),
	}
)

// Options restrict the representations drawn.
type Options struct {
	NoJSONNumber  bool // never use json.Number
	NoNamedKeys   bool // never use a named string type as map key
	NoTyped       bool // containers only as []any / map[string]any (leaves still vary)
	NoPointers    bool // no pointer wrapping below the top level
	NoArrays      bool // no Go arrays
	NoNilPointers bool // null only as nil interface
	NoMixedIface  bool // (reserved)
	// LooseFloat32: use float32 for every number that a float32 holds exactly, even when
	// encoding/json would spell it differently (float32(0.1) is written as 0.1). Only for the
	// equality properties, whose reference is the mathematical value, not the encoding.
	LooseFloat32 bool
}

// Builder builds representations.
type Builder struct {
	C Chooser
	O Options
	// Stats, filled while building: which representation families were used.
	Used map[string]int
}

func (b *Builder) use(s string) {
	if b.Used == nil {
		b.Used = map[string]int{}
	}
	b.Used[s]++
}

// Build returns a Go value (as any) representing v. depth 0 = top level.
func (b *Builder) Build(v *jv.V) any {
	t := b.chooseType(v, 0)
	rv := b.fill(v, t, 0)
	if !rv.IsValid() {
		return nil
	}
	return rv.Interface()
}

// BuildAs builds v as a value of the static type t; ok is false when t cannot hold v.
func (b *Builder) BuildAs(v *jv.V, t reflect.Type) (x any, ok bool) {
	if !Fits(v, t) {
		return nil, false
	}
	rv := b.fill(v, t, 0)
	if !rv.IsValid() {
		return nil, false
	}
	return rv.Interface(), true
}

// numFits reports whether number v is exactly representable in numeric type t.
func (b *Builder) numFits(v *jv.V, t reflect.Type) bool {
	if b.O.LooseFloat32 && t.Kind() == reflect.Float32 && v.K == jv.Num {
		f, exact := v.N.Float32()
		return exact && !math.IsInf(float64(f), 0)
	}
	return numFits(v, t)
}

func numFits(v *jv.V, t reflect.Type) bool {
	if v.K != jv.Num {
		return false
	}
	if t == tNumber {
		return true
	}
	switch t.Kind() {
	case reflect.Float64:
		return v.Float64Exact()
	case reflect.Float32:
		f, exact := v.N.Float32()
		if !exact || math.IsInf(float64(f), 0) {
			return false
		}
		// encoding/json writes a float32 in its shortest 32-bit round-tripping spelling
		// (2^32 as 4294967300), which is a different JSON number unless it is exact.
		back, ok := new(big.Rat).SetString(strconv.FormatFloat(float64(f), 'g', -1, 32))
		return ok && back.Cmp(v.N) == 0
	case reflect.Int, reflect.Int8, reflect.Int16, reflect.Int32, reflect.Int64:
		if !v.N.IsInt() || !v.N.Num().IsInt64() {
			return false
		}
		return !reflect.Zero(t).OverflowInt(v.N.Num().Int64())
	case reflect.Uint, reflect.Uint8, reflect.Uint16, reflect.Uint32, reflect.Uint64, reflect.Uintptr:
		if !v.N.IsInt() || !v.N.Num().IsUint64() {
			return false
		}
		return !reflect.Zero(t).OverflowUint(v.N.Num().Uint64())
	}
	return false
}

// Fits reports whether v can be represented by static type t.
func Fits(v *jv.V, t reflect.Type) bool {
	switch t.Kind() {
	case reflect.Interface:
		return true
	case reflect.Pointer:
		return v.K == jv.Null || Fits(v, t.Elem())
	case reflect.Bool:
		return v.K == jv.Bool
	case reflect.String:
		if t == tNumber {
			return v.K == jv.Num
		}
		return v.K == jv.Str
	case reflect.Slice:
		if v.K != jv.Arr {
			return false
		}
		for _, e := range v.A {
			if !Fits(e, t.Elem()) {
				return false
			}
		}
		return true
	case reflect.Array:
		if v.K != jv.Arr || len(v.A) != t.Len() {
			return false
		}
		for _, e := range v.A {
			if !Fits(e, t.Elem()) {
				return false
			}
		}
		return true
	case reflect.Map:
		if v.K != jv.Obj {
			return false
		}
		for _, m := range v.O {
			if !Fits(m.V, t.Elem()) {
				return false
			}
		}
		return true
	default:
		return numFits(v, t)
	}
}

func (b *Builder) pick(n int, label string) int {
	if n <= 1 {
		return 0
	}
	return b.C.Pick(n, label)
}

// chooseType picks a static Go type able to hold v. Choice 0 is always the canonical one.
func (b *Builder) chooseType(v *jv.V, depth int) reflect.Type {
	t := b.chooseBase(v, depth)
	// pointer wrapping (never around a nil-pointer type, which already is one)
	if !b.O.NoPointers && t.Kind() != reflect.Pointer {
		switch b.pick(8, "ptr") {
		case 1:
			b.use("ptr1")
			return reflect.PointerTo(t)
		case 2:
			b.use("ptr2")
			return reflect.PointerTo(reflect.PointerTo(t))
		case 3:
			// pointer to interface holding the value
			if t != tAny {
				b.use("ptr-to-iface")
				return reflect.PointerTo(tAny)
			}
		}
	}
	return t
}

func (b *Builder) chooseBase(v *jv.V, depth int) reflect.Type {
	switch v.K {
	case jv.Null:
		if !b.O.NoNilPointers && b.pick(4, "nullrep") == 1 {
			b.use("nil-pointer")
			return nilPtrTypes[b.pick(len(nilPtrTypes), "nilptrtype")]
		}
		return tAny
	case jv.Bool:
		t := boolTypes[b.pick(len(boolTypes), "booltype")]
		if t != boolTypes[0] {
			b.use("named-bool")
		}
		return t
	case jv.Str:
		t := strTypes[b.pick(len(strTypes), "strtype")]
		if t != strTypes[0] {
			b.use("named-string")
		}
		return t
	case jv.Num:
		var cands []reflect.Type
		for _, t := range numTypes {
			if t == tNumber && b.O.NoJSONNumber {
				continue
			}
			if b.numFits(v, t) {
				cands = append(cands, t)
			}
		}
		if len(cands) == 0 {
			panic("repr: number fits no type: " + v.JSON())
		}
		// bias: half of the time canonical (index 0 when float64-exact)
		if b.pick(2, "numcanon") == 0 {
			return cands[0]
		}
		t := cands[b.pick(len(cands), "numtype")]
		b.use("num-" + t.String())
		return t
	case jv.Arr:
		if b.O.NoTyped {
			return reflect.TypeFor[[]any]()
		}
		switch b.pick(6, "arrrep") {
		case 0, 1:
			return reflect.TypeFor[[]any]()
		case 2:
			b.use("named-any-slice")
			return reflect.TypeFor[AnySlice]()
		case 3:
			if !b.O.NoArrays {
				b.use("array-of-any")
				return reflect.ArrayOf(len(v.A), tAny)
			}
			return reflect.TypeFor[[]any]()
		default:
			et := b.commonElemType(v.A, depth)
			if et == tAny {
				return reflect.TypeFor[[]any]()
			}
			if et.Kind() == reflect.Uint8 {
				// encoding/json writes slices of bytes as base64 strings: not a representation of a JSON array
				if b.O.NoArrays {
					return reflect.TypeFor[[]any]()
				}
				b.use("typed-array")
				return reflect.ArrayOf(len(v.A), et)
			}
			if !b.O.NoArrays && b.pick(3, "arr-or-slice") == 0 {
				b.use("typed-array")
				return reflect.ArrayOf(len(v.A), et)
			}
			if et == reflect.TypeFor[int]() && b.pick(3, "named-int-slice") == 0 {
				b.use("named-int-slice")
				return reflect.TypeFor[IntSlice]()
			}
			b.use("typed-slice")
			return reflect.SliceOf(et)
		}
	case jv.Obj:
		kt := keyTypes[0]
		if !b.O.NoNamedKeys && b.pick(4, "keytype") == 1 {
			kt = keyTypes[1]
			b.use("named-key")
		}
		if b.O.NoTyped {
			return reflect.MapOf(kt, tAny)
		}
		switch b.pick(5, "objrep") {
		case 0, 1, 2:
			if kt == keyTypes[0] && b.pick(4, "named-any-map") == 1 {
				b.use("named-any-map")
				return reflect.TypeFor[AnyMap]()
			}
			return reflect.MapOf(kt, tAny)
		default:
			var vals []*jv.V
			for _, m := range v.O {
				vals = append(vals, m.V)
			}
			et := b.commonElemType(vals, depth)
			if et != tAny {
				b.use("typed-map")
			}
			return reflect.MapOf(kt, et)
		}
	}
	panic("unreachable")
}

// commonElemType proposes a concrete type from the first element and keeps it if every
// element fits; otherwise any.
func (b *Builder) commonElemType(elems []*jv.V, depth int) reflect.Type {
	if len(elems) == 0 {
		return []reflect.Type{tAny, reflect.TypeFor[int](), reflect.TypeFor[string](), reflect.TypeFor[map[string]any]()}[b.pick(4, "emptyelem")]
	}
	if depth > 6 {
		return tAny
	}
	i := b.pick(len(elems), "protoelem")
	cand := b.chooseType(elems[i], depth+1)
	for _, e := range elems {
		if !Fits(e, cand) {
			return tAny
		}
	}
	return cand
}

// fill builds a value of static type t holding v.
func (b *Builder) fill(v *jv.V, t reflect.Type, depth int) reflect.Value {
	switch t.Kind() {
	case reflect.Interface:
		// choose a concrete dynamic type
		if v.K == jv.Null && (b.O.NoNilPointers || b.pick(4, "iface-null") != 1) {
			return reflect.Zero(t) // nil interface
		}
		ct := b.chooseType(v, depth+1)
		if ct.Kind() == reflect.Interface {
			// chooseType returns `any` only for null
			return reflect.Zero(t)
		}
		cv := b.fill(v, ct, depth+1)
		out := reflect.New(t).Elem()
		out.Set(cv)
		return out
	case reflect.Pointer:
		if v.K == jv.Null {
			if t.Elem().Kind() == reflect.Interface || t.Elem().Kind() == reflect.Pointer {
				// could also be a non-nil pointer to a nil interface / nil pointer
				if b.pick(3, "ptr-to-nil") == 1 {
					p := reflect.New(t.Elem())
					p.Elem().Set(b.fill(v, t.Elem(), depth))
					return p
				}
			}
			return reflect.Zero(t)
		}
		p := reflect.New(t.Elem())
		p.Elem().Set(b.fill(v, t.Elem(), depth))
		return p
	case reflect.Bool:
		out := reflect.New(t).Elem()
		out.SetBool(v.B)
		return out
	case reflect.String:
		out := reflect.New(t).Elem()
		if t == tNumber {
			out.SetString(b.numberText(v))
		} else {
			out.SetString(v.S)
		}
		return out
	case reflect.Slice:
		out := reflect.MakeSlice(t, len(v.A), len(v.A))
		for i, e := range v.A {
			out.Index(i).Set(b.fill(e, t.Elem(), depth+1))
		}
		return out
	case reflect.Array:
		out := reflect.New(t).Elem()
		for i, e := range v.A {
			out.Index(i).Set(b.fill(e, t.Elem(), depth+1))
		}
		return out
	case reflect.Map:
		out := reflect.MakeMapWithSize(t, len(v.O))
		for _, m := range v.O {
			k := reflect.New(t.Key()).Elem()
			k.SetString(m.K)
			out.SetMapIndex(k, b.fill(m.V, t.Elem(), depth+1))
		}
		return out
	case reflect.Float32, reflect.Float64:
		f, _ := v.N.Float64()
		if v.NegZero() {
			f = math.Copysign(0, -1)
		}
		out := reflect.New(t).Elem()
		out.SetFloat(f)
		return out
	case reflect.Int, reflect.Int8, reflect.Int16, reflect.Int32, reflect.Int64:
		out := reflect.New(t).Elem()
		out.SetInt(v.N.Num().Int64())
		return out
	case reflect.Uint, reflect.Uint8, reflect.Uint16, reflect.Uint32, reflect.Uint64, reflect.Uintptr:
		out := reflect.New(t).Elem()
		out.SetUint(v.N.Num().Uint64())
		return out
	}
	panic(fmt.Sprintf("repr.fill: unsupported type %s", t))
}

// numberText picks a spelling for a json.Number.
func (b *Builder) numberText(v *jv.V) string {
	switch b.pick(4, "jnspell") {
	case 0:
		if v.Text != "" {
			return v.Text
		}
	case 1:
		return jv.RatText(v.N)
	case 2:
		if v.N.IsInt() && len(v.N.Num().String()) < 18 {
			return v.N.Num().String() + ".00"
		}
	case 3:
		r := new(big.Rat).Mul(v.N, big.NewRat(100, 1))
		if t := jv.RatText(r); len(t) < 18 {
			return t + "e-2"
		}
	}
	return jv.RatText(v.N)
}

// Describe renders the Go type structure of a built value (for samples and class counters):
// like %T but descending into interfaces and pointers.
func Describe(x any) string {
	return describe(reflect.ValueOf(x), 0)
}

func describe(v reflect.Value, depth int) string {
	if !v.IsValid() {
		return "nil"
	}
	if depth > 8 {
		return "..."
	}
	switch v.Kind() {
	case reflect.Interface:
		if v.IsNil() {
			return "nil"
		}
		return describe(v.Elem(), depth)
	case reflect.Pointer:
		if v.IsNil() {
			return "(" + v.Type().String() + ")(nil)"
		}
		return "&" + describe(v.Elem(), depth)
	case reflect.Slice, reflect.Array:
		s := v.Type().String() + "{"
		for i := 0; i < v.Len(); i++ {
			if i > 0 {
				s += ","
			}
			if v.Type().Elem().Kind() == reflect.Interface || v.Type().Elem().Kind() == reflect.Pointer {
				s += describe(v.Index(i), depth+1)
			} else if k := v.Type().Elem().Kind(); k == reflect.Slice || k == reflect.Map || k == reflect.Array {
				s += describe(v.Index(i), depth+1)
			} else {
				s += "_"
			}
		}
		return s + "}"
	case reflect.Map:
		s := v.Type().String() + "{"
		keys := v.MapKeys()
		// sorted for determinism
		for i := 0; i < len(keys); i++ {
			for j := i + 1; j < len(keys); j++ {
				if keys[j].String() < keys[i].String() {
					keys[i], keys[j] = keys[j], keys[i]
				}
			}
		}
		for i, k := range keys {
			if i > 0 {
				s += ","
			}
			ek := v.Type().Elem().Kind()
			if ek == reflect.Interface || ek == reflect.Pointer || ek == reflect.Slice || ek == reflect.Map || ek == reflect.Array {
				s += describe(v.MapIndex(k), depth+1)
			} else {
				s += "_"
			}
		}
		return s + "}"
	default:
		return v.Type().String()
	}
}

// IsCanonical reports whether x uses only the canonical decoding's types.
func IsCanonical(x any) bool {
	switch t := x.(type) {
	case nil, bool, float64, string:
		return true
	case []any:
		for _, e := range t {
			if !IsCanonical(e) {
				return false
			}
		}
		return true
	case map[string]any:
		for _, e := range t {
			if !IsCanonical(e) {
				return false
			}
		}
		return true
	}
	return false
}
