// Command check is the driver of the verification harness.
//
//	check <ID> quick|thorough       run the check of one property
//	check <ID> --replay <file>      re-execute one saved case through the plain (rapid-free) oracle
//	check selftest                  harness self-checks (reference model vs official suite, ...)
//
// Exit status: 0 = property held on everything explored; 1 = violation (a line
// "VIOLATION property=<ID> replay=<path>" is printed); 2 = inconclusive / infrastructure
// problem (a line "INCONCLUSIVE property=<ID> reason=..." is printed).
package main

import (
	"bytes"
	"encoding/binary"
	"encoding/json"
	"fmt"
	"os"
	"os/exec"
	"path/filepath"
	"sort"
	"strconv"
	"strings"
	"sync"
	"time"
)

// repoDir is /repo; background sweeps that must not depend on the live tree point the harness
// at a snapshot (VERIF_REPO_OVERRIDE, together with a go.mod replace edited in their own copy).
var repoDir = "/repo"

// verifDir is /verif, or the snapshot the wrapper script lives in (VERIF_ROOT, set by bin/check).
var (
	verifDir   = "/verif"
	harnessDir = "/verif/harness"
)

func init() {
	if r := os.Getenv("VERIF_REPO_OVERRIDE"); r != "" {
		repoDir = r
	}
	if r := os.Getenv("VERIF_ROOT"); r != "" {
		verifDir = r
		harnessDir = filepath.Join(r, "harness")
	}
}

type tierCfg struct {
	Checks int // rapid checks per shard
	Shards int
}

type propCfg struct {
	ID       string
	Test     string // go test name (regexp-anchored by the driver)
	Quick    tierCfg
	Thorough tierCfg
	Race     bool          // build and run with the race detector
	Fatal    bool          // a process that dies without a recorded failing case is a violation (journal = replay)
	Procs    int           // C14: number of fresh-process repetitions compared by digest (0 = none)
	Fuzz     []fuzzCfg     // native fuzz campaigns (thorough only)
	Timeout  time.Duration // per shard, quick; thorough gets 12x
	Env      []string
}

type fuzzCfg struct {
	Target string
	Dur    time.Duration
}

var props = map[string]*propCfg{}

func reg(p *propCfg) {
	if p.Timeout == 0 {
		p.Timeout = 5 * time.Minute
	}
	props[p.ID] = p
}

func init() {
	reg(&propCfg{ID: "C13", Test: "TestC13", Quick: tierCfg{150, 8}, Thorough: tierCfg{5000, 16}, Race: true, Fatal: true, Timeout: 8 * time.Minute})
	reg(&propCfg{ID: "C14", Test: "TestC14", Quick: tierCfg{4000, 6}, Thorough: tierCfg{120000, 16}})
	reg(&propCfg{ID: "C19", Test: "TestC19", Quick: tierCfg{10000, 8}, Thorough: tierCfg{400000, 16}})
	reg(&propCfg{ID: "C11", Test: "TestC11", Quick: tierCfg{30000, 8}, Thorough: tierCfg{600000, 16}})
	reg(&propCfg{ID: "C10", Test: "TestC10", Quick: tierCfg{4000, 6}, Thorough: tierCfg{150000, 16}, Fatal: true, Fuzz: []fuzzCfg{{"FuzzC10", 3 * time.Minute}, {"FuzzBytes", 3 * time.Minute}}})
	reg(&propCfg{ID: "C20", Test: "TestC20", Quick: tierCfg{500, 8}, Thorough: tierCfg{15000, 16}})
	reg(&propCfg{ID: "C16", Test: "TestC16", Quick: tierCfg{5000, 6}, Thorough: tierCfg{250000, 16}, Fatal: true})
	reg(&propCfg{ID: "C09", Test: "TestC09", Quick: tierCfg{20000, 8}, Thorough: tierCfg{600000, 16}})
	reg(&propCfg{ID: "C04", Test: "TestC04", Quick: tierCfg{20000, 8}, Thorough: tierCfg{600000, 16}})
	reg(&propCfg{ID: "C06", Test: "TestC06", Quick: tierCfg{3000, 4}, Thorough: tierCfg{100000, 16}, Fuzz: []fuzzCfg{{"FuzzC06", 2 * time.Minute}}})
	reg(&propCfg{ID: "C03", Test: "TestC03", Quick: tierCfg{4000, 6}, Thorough: tierCfg{150000, 16}, Fuzz: []fuzzCfg{{"FuzzC03", 2 * time.Minute}}})
	reg(&propCfg{ID: "C17", Test: "TestC17", Quick: tierCfg{800, 8}, Thorough: tierCfg{20000, 16}, Fuzz: []fuzzCfg{{"FuzzC17", 2 * time.Minute}}})
	reg(&propCfg{ID: "C15", Test: "TestC15", Quick: tierCfg{10000, 8}, Thorough: tierCfg{500000, 16}, Fuzz: []fuzzCfg{{"FuzzC15", 2 * time.Minute}}})
	reg(&propCfg{ID: "C05", Test: "TestC05", Quick: tierCfg{1200, 8}, Thorough: tierCfg{40000, 16}, Fuzz: []fuzzCfg{{"FuzzC05", 2 * time.Minute}, {"FuzzBytes", 2 * time.Minute}}})
	reg(&propCfg{ID: "C18", Test: "TestC18", Quick: tierCfg{9000, 8}, Thorough: tierCfg{400000, 16}, Fuzz: []fuzzCfg{{"FuzzC18", 2 * time.Minute}}})
	reg(&propCfg{ID: "C07", Test: "TestC07", Quick: tierCfg{2500, 6}, Thorough: tierCfg{60000, 16}, Fuzz: []fuzzCfg{{"FuzzC07", 2 * time.Minute}}})
	reg(&propCfg{ID: "C02", Test: "TestC02", Quick: tierCfg{8000, 8}, Thorough: tierCfg{250000, 16}, Fuzz: []fuzzCfg{{"FuzzC02", 2 * time.Minute}}})
	reg(&propCfg{ID: "C08", Test: "TestC08", Quick: tierCfg{12000, 8}, Thorough: tierCfg{500000, 16}})
	reg(&propCfg{ID: "C01", Test: "TestC01", Quick: tierCfg{12000, 8}, Thorough: tierCfg{300000, 16}, Fuzz: []fuzzCfg{{"FuzzC01", 3 * time.Minute}}})
	reg(&propCfg{ID: "C12", Test: "TestC12", Quick: tierCfg{25000, 8}, Thorough: tierCfg{600000, 16}})
}

type finding struct {
	Property string `json:"property"`
	Key      string `json:"key"`
	What     string `json:"what"`
	Status   string `json:"status"` // open | fixed
	Commit   string `json:"commit,omitempty"`
	Replay   string `json:"replay,omitempty"` // path relative to /verif of a case that exhibits it
}

func loadFindings() []finding {
	b, err := os.ReadFile(filepath.Join(verifDir, "known_findings.json"))
	if err != nil {
		return nil
	}
	var f struct {
		Findings []finding `json:"findings"`
	}
	if err := json.Unmarshal(b, &f); err != nil {
		fmt.Fprintf(os.Stderr, "known_findings.json: %v\n", err)
		return nil
	}
	return f.Findings
}

func baseEnv() []string {
	env := os.Environ()
	env = append(env,
		"GOFLAGS=-mod=mod", "GOPROXY=off", "GOSUMDB=off", "GOTOOLCHAIN=local",
		"CGO_ENABLED="+cgo(),
	)
	return env
}

func cgo() string {
	if v := os.Getenv("CGO_ENABLED"); v != "" {
		return v
	}
	return "1"
}

func inconclusive(id, reason string) {
	fmt.Printf("INCONCLUSIVE property=%s reason=%s\n", id, reason)
	os.Exit(2)
}

// build compiles the props test binary from /repo's current working tree.
// It returns the binary path and whether the verif tag (hooks) is active.
func build(id, work string, race bool) (string, bool) {
	out := filepath.Join(work, "props.test")
	try := func(tags string) ([]byte, error) {
		args := []string{"test", "-c", "-vet=off", "-o", out}
		if tags != "" {
			args = append(args, "-tags", tags)
		}
		if race {
			args = append(args, "-race")
		}
		args = append(args, "./props")
		cmd := exec.Command("go", args...)
		cmd.Dir = harnessDir
		cmd.Env = baseEnv()
		return cmd.CombinedOutput()
	}
	o1, err := try("verif")
	if err == nil {
		return out, true
	}
	// A refactoring of /repo may have broken the hook file only: fall back to the untagged build.
	o2, err2 := try("")
	if err2 == nil {
		fmt.Printf("NOTE property=%s hooks unavailable (tagged build failed), running without hooks\n", id)
		return out, false
	}
	fmt.Fprintf(os.Stderr, "build failed:\n%s\n%s\n", o1, o2)
	inconclusive(id, "build-failed")
	return "", false
}

type shardResult struct {
	shard    int
	exit     int
	timedOut bool
	partial  *partial
	failFile string
	journal  string
	log      string
	wall     time.Duration
}

type partial struct {
	Property     string            `json:"property"`
	Cases        int64             `json:"cases"`
	Evaluations  int64             `json:"evaluations"`
	NonTrivial   int64             `json:"nontrivial"`
	Distinct     int64             `json:"distinct_nontrivial_local"`
	Classes      map[string]int64  `json:"classes"`
	Known        map[string]int64  `json:"known_finding_hits"`
	KnownWhat    map[string]string `json:"known_finding_what"`
	Samples      []any             `json:"samples"`
	Rule         string            `json:"rule"`
	Assumptions  []string          `json:"assumptions"`
	Extra        map[string]any    `json:"extra"`
	HashFile     string            `json:"hash_file"`
	Failed       bool              `json:"failed"`
	FailMsg      string            `json:"fail_msg"`
	Inconclusive string            `json:"inconclusive"`
}

func rapidSeed(verifSeed int64, shard int) uint64 {
	s := (uint64(verifSeed)*1000003 + uint64(shard)) % (1 << 62)
	return s + 1
}

func runShard(p *propCfg, bin, work string, tier string, seed int64, shard int, checks int, timeout time.Duration, hooks bool, openKeys []string, extraEnv []string, testName string) shardResult {
	res := shardResult{shard: shard}
	out := filepath.Join(work, fmt.Sprintf("out_%d.json", shard))
	fail := filepath.Join(work, fmt.Sprintf("fail_%d.json", shard))
	journal := filepath.Join(work, fmt.Sprintf("journal_%d.json", shard))
	logf := filepath.Join(work, fmt.Sprintf("log_%d.txt", shard))
	res.failFile, res.journal, res.log = fail, journal, logf
	rseed := strconv.FormatUint(rapidSeed(seed, shard), 10)
	for _, e := range extraEnv {
		if strings.HasPrefix(e, "VERIF_FORCE_RAPID_SEED=") {
			rseed = strings.TrimPrefix(e, "VERIF_FORCE_RAPID_SEED=")
		}
	}
	args := []string{
		"-test.run", "^" + testName + "$", "-test.count=1", "-test.timeout=0", "-test.v",
		"-rapid.checks=" + strconv.Itoa(checks),
		"-rapid.seed=" + rseed,
		"-rapid.nofailfile", "-rapid.shrinktime=45s",
	}
	cmd := exec.Command(bin, args...)
	cmd.Dir = work
	env := baseEnv()
	env = append(env,
		"VERIF_OUT="+out, "VERIF_FAIL="+fail, "VERIF_JOURNAL="+journal, "VERIF_STUCK="+filepath.Join(work, fmt.Sprintf("stuck_%d.json", shard)),
		"VERIF_TIER="+tier, "VERIF_SEED="+strconv.FormatInt(seed, 10), "VERIF_SHARD="+strconv.Itoa(shard),
		"VERIF_KNOWN_OPEN="+strings.Join(openKeys, ","),
		"VERIF_HOOKS="+map[bool]string{true: "1", false: "0"}[hooks],
		"VERIF_REPO="+repoDir, "VERIF_DIR="+verifDir,
	)
	if p.Race {
		env = append(env, "GORACE=halt_on_error=1 exitcode=66")
	}
	env = append(env, p.Env...)
	env = append(env, extraEnv...)
	cmd.Env = env
	lf, _ := os.Create(logf)
	defer lf.Close()
	cmd.Stdout, cmd.Stderr = lf, lf
	start := time.Now()
	if err := cmd.Start(); err != nil {
		res.exit = -1
		return res
	}
	done := make(chan error, 1)
	go func() { done <- cmd.Wait() }()
	select {
	case err := <-done:
		if err != nil {
			if ee, ok := err.(*exec.ExitError); ok {
				res.exit = ee.ExitCode()
			} else {
				res.exit = -1
			}
		}
	case <-time.After(timeout):
		_ = cmd.Process.Kill()
		<-done
		res.timedOut = true
		res.exit = -2
	}
	res.wall = time.Since(start)
	if b, err := os.ReadFile(out); err == nil {
		var pp partial
		if json.Unmarshal(b, &pp) == nil {
			res.partial = &pp
		}
	}
	return res
}

func tail(path string, n int) string {
	b, err := os.ReadFile(path)
	if err != nil {
		return ""
	}
	lines := strings.Split(string(b), "\n")
	if len(lines) > n {
		lines = lines[len(lines)-n:]
	}
	return strings.Join(lines, "\n")
}

func copyFile(src, dst string) error {
	b, err := os.ReadFile(src)
	if err != nil {
		return err
	}
	_ = os.MkdirAll(filepath.Dir(dst), 0o755)
	return os.WriteFile(dst, b, 0o644)
}

func readHashes(path string, into map[uint64]struct{}) {
	b, err := os.ReadFile(path)
	if err != nil {
		return
	}
	for i := 0; i+8 <= len(b); i += 8 {
		into[binary.LittleEndian.Uint64(b[i:])] = struct{}{}
	}
}

type evidence struct {
	PropertyID  string         `json:"property_id"`
	Tier        string         `json:"tier"`
	Seed        int64          `json:"seed"`
	Level       string         `json:"level"`
	Coverage    map[string]any `json:"coverage"`
	Assumptions []string       `json:"assumptions"`
	WallS       float64        `json:"wall_s"`
	Violations  int            `json:"violations"`
}

func main() {
	if len(os.Args) < 2 {
		fmt.Fprintln(os.Stderr, "usage: check <ID> quick|thorough | check <ID> --replay <file> | check selftest")
		os.Exit(2)
	}
	if os.Args[1] == "selftest" {
		selftest()
		return
	}
	if len(os.Args) < 3 {
		fmt.Fprintln(os.Stderr, "usage: check <ID> quick|thorough | check <ID> --replay <file>")
		os.Exit(2)
	}
	id := os.Args[1]
	p := props[id]
	if p == nil {
		fmt.Fprintf(os.Stderr, "unknown property %s\n", id)
		os.Exit(2)
	}
	seed := int64(1)
	if s := os.Getenv("VERIF_SEED"); s != "" {
		if v, err := strconv.ParseInt(s, 10, 64); err == nil {
			seed = v
		}
	}
	if seed < 0 {
		seed = -seed
	}
	work, err := os.MkdirTemp(filepath.Join(verifDir, ".build"), id+"-")
	if err != nil {
		_ = os.MkdirAll(filepath.Join(verifDir, ".build"), 0o755)
		work, err = os.MkdirTemp(filepath.Join(verifDir, ".build"), id+"-")
		if err != nil {
			inconclusive(id, "no-workdir")
		}
	}
	keep := os.Getenv("VERIF_KEEP") != ""
	cleanup := func() {
		if !keep {
			_ = os.RemoveAll(work)
		}
	}

	if os.Args[2] == "--replay" {
		if len(os.Args) < 4 {
			fmt.Fprintln(os.Stderr, "missing replay file")
			os.Exit(2)
		}
		code := replay(p, work, os.Args[3], true)
		cleanup()
		os.Exit(code)
	}
	tier := os.Args[2]
	if tier != "quick" && tier != "thorough" {
		fmt.Fprintf(os.Stderr, "unknown tier %s\n", tier)
		os.Exit(2)
	}
	code := run(p, work, tier, seed)
	cleanup()
	os.Exit(code)
}

// replay runs one saved case through the plain oracle. Returns 0 (passes), 1 (fails), 2.
func replay(p *propCfg, work, file string, announce bool) int {
	abs, _ := filepath.Abs(file)
	if !filepath.IsAbs(file) {
		if _, err := os.Stat(abs); err != nil {
			abs = filepath.Join(verifDir, file)
		}
	}
	bin, hooks := build(p.ID, work, p.Race)
	cmd := exec.Command(bin, "-test.run", "^TestReplay$", "-test.count=1", "-test.v", "-test.timeout=10m")
	cmd.Dir = work
	env := append(baseEnv(), "VERIF_REPLAY="+abs, "VERIF_PROP="+p.ID,
		"VERIF_HOOKS="+map[bool]string{true: "1", false: "0"}[hooks],
		"VERIF_REPO="+repoDir, "VERIF_DIR="+verifDir, "VERIF_KNOWN_OPEN=")
	if p.Race {
		env = append(env, "GORACE=halt_on_error=1 exitcode=66")
	}
	cmd.Env = append(env, p.Env...)
	out, err := cmd.CombinedOutput()
	if err == nil {
		if announce {
			fmt.Printf("REPLAY property=%s file=%s result=pass\n", p.ID, file)
		}
		return 0
	}
	if bytes.Contains(out, []byte("REPLAY-HARNESS-ERROR")) {
		if announce {
			fmt.Printf("%s\nINCONCLUSIVE property=%s reason=replay-harness-error\n", out, p.ID)
		}
		return 2
	}
	if announce {
		fmt.Printf("%s\n", lastLines(string(out), 40))
		fmt.Printf("VIOLATION property=%s replay=%s\n", p.ID, file)
	}
	return 1
}

func lastLines(s string, n int) string {
	lines := strings.Split(strings.TrimRight(s, "\n"), "\n")
	if len(lines) > n {
		lines = lines[len(lines)-n:]
	}
	return strings.Join(lines, "\n")
}

func run(p *propCfg, work, tier string, seed int64) int {
	start := time.Now()
	tc := p.Quick
	timeout := p.Timeout
	if tier == "thorough" {
		tc = p.Thorough
		timeout = 12 * p.Timeout
	}
	if v := os.Getenv("VERIF_CHECKS"); v != "" { // development aid
		if n, err := strconv.Atoi(v); err == nil {
			tc.Checks = n
		}
	}
	if v := os.Getenv("VERIF_SHARDS"); v != "" {
		if n, err := strconv.Atoi(v); err == nil {
			tc.Shards = n
		}
	}
	bin, hooks := build(p.ID, work, p.Race)

	// Known findings: replay each open one; report it if it still reproduces.
	var openKeys []string
	for _, f := range loadFindings() {
		if f.Property != p.ID || f.Status != "open" {
			continue
		}
		openKeys = append(openKeys, f.Key)
	}
	sort.Strings(openKeys)

	results := make([]shardResult, tc.Shards)
	var wg sync.WaitGroup
	sem := make(chan struct{}, 16)
	for i := 0; i < tc.Shards; i++ {
		wg.Add(1)
		go func(i int) {
			defer wg.Done()
			sem <- struct{}{}
			defer func() { <-sem }()
			results[i] = runShard(p, bin, work, tier, seed, i, tc.Checks, timeout, hooks, openKeys, nil, p.Test)
		}(i)
	}
	wg.Wait()

	extraCov := map[string]any{}
	violations := []string{}
	inconcl := ""

	// Regression tier: saved cases (shrunk counterexamples of repaired defects, corner cases).
	{
		cmd := exec.Command(bin, "-test.run", "^TestRegress$", "-test.count=1", "-test.timeout=10m")
		cmd.Dir = work
		env := append(baseEnv(), "VERIF_REGRESS_DIR="+filepath.Join(verifDir, "regress"), "VERIF_PROP="+p.ID,
			"VERIF_HOOKS="+map[bool]string{true: "1", false: "0"}[hooks], "VERIF_REPO="+repoDir, "VERIF_DIR="+verifDir, "VERIF_KNOWN_OPEN=")
		cmd.Env = append(env, p.Env...)
		out, err := cmd.CombinedOutput()
		nreg := 0
		for _, line := range strings.Split(string(out), "\n") {
			if strings.HasPrefix(line, "REGRESS-FAIL file=") {
				violations = append(violations, strings.TrimPrefix(line, "REGRESS-FAIL file="))
			}
			if strings.HasPrefix(line, "REGRESS-COUNT ") {
				nreg, _ = strconv.Atoi(strings.TrimPrefix(line, "REGRESS-COUNT "))
			}
		}
		if err != nil && len(violations) == 0 {
			fmt.Fprintf(os.Stderr, "regress stage failed:\n%s\n", lastLines(string(out), 30))
			inconcl = "regress-stage-error"
		}
		if len(violations) > 0 {
			fmt.Printf("%s\n", lastLines(string(out), 40))
		}
		extraCov["regression_cases_replayed"] = nreg
	}

	// Native fuzz campaigns (thorough tier only): bounded by wall-clock, all cores.
	if tier == "thorough" {
		for _, fz := range p.Fuzz {
			v, inc, execs := runFuzz(p, fz, work, seed, hooks, openKeys)
			violations = append(violations, v...)
			if inc != "" && inconcl == "" {
				inconcl = inc
			}
			extraCov["fuzz_execs_"+fz.Target] = execs
			extraCov["fuzz_seconds_"+fz.Target] = int(fz.Dur.Seconds())
		}
	}

	// Optional extra stages (registered per property).
	if st := stages[p.ID]; st != nil {
		v, inc := st(p, bin, work, tier, seed, hooks, openKeys, extraCov)
		violations = append(violations, v...)
		if inc != "" && inconcl == "" {
			inconcl = inc
		}
	}

	// Merge.
	hashes := map[uint64]struct{}{}
	classes := map[string]int64{}
	known := map[string]int64{}
	knownWhat := map[string]string{}
	var samples []any
	var evals, cases, nontriv int64
	rule := ""
	var assumptions []string
	for _, r := range results {
		if r.partial != nil {
			pp := r.partial
			evals += pp.Evaluations
			cases += pp.Cases
			nontriv += pp.NonTrivial
			for k, v := range pp.Classes {
				classes[k] += v
			}
			for k, v := range pp.Known {
				known[k] += v
				knownWhat[k] = pp.KnownWhat[k]
			}
			if len(samples) < 12 {
				for _, s := range pp.Samples {
					if len(samples) < 12 {
						samples = append(samples, s)
					}
				}
			}
			if pp.Rule != "" {
				rule = pp.Rule
			}
			if pp.Assumptions != nil {
				assumptions = pp.Assumptions
			}
			for k, v := range pp.Extra {
				if _, dup := extraCov[k]; !dup {
					extraCov[k] = v
				} else if a, ok := extraCov[k].(float64); ok {
					if b, ok := v.(float64); ok {
						extraCov[k] = a + b
					}
				}
			}
			readHashes(pp.HashFile, hashes)
		}
		switch {
		case r.exit == 0:
			if r.partial == nil {
				inconcl = fmt.Sprintf("shard-%d-no-evidence", r.shard)
			} else if r.partial.Inconclusive != "" {
				inconcl = r.partial.Inconclusive
			} else if r.partial.Cases < int64(tc.Checks) {
				inconcl = fmt.Sprintf("shard-%d-ran-%d-of-%d-cases", r.shard, r.partial.Cases, tc.Checks)
			}
		case r.exit == 3 && !fileNonEmpty(r.failFile):
			// the watchdog inside the test process: one case did not finish (generator, model or
			// library — unknown). The case is kept for diagnosis; the run decides nothing.
			stuck := filepath.Join(filepath.Dir(r.failFile), fmt.Sprintf("stuck_%d.json", r.shard))
			dst := filepath.Join(verifDir, "replays", fmt.Sprintf("%s-%s-seed%d-shard%d-stuck.json", p.ID, tier, seed, r.shard))
			_ = copyFile(stuck, dst)
			inconcl = fmt.Sprintf("shard-%d-case-stuck (kept as %s)", r.shard, dst)
			fmt.Fprintf(os.Stderr, "shard %d: a case did not finish; log tail:\n%s\n", r.shard, tail(r.log, 10))
		case r.timedOut && !fileNonEmpty(r.failFile):
			inconcl = fmt.Sprintf("shard-%d-timeout", r.shard)
			fmt.Fprintf(os.Stderr, "shard %d timed out; log tail:\n%s\n", r.shard, tail(r.log, 30))
		default:
			// non-zero exit
			_, statErr := os.Stat(r.failFile)
			switch {
			case r.partial != nil && r.partial.Inconclusive != "":
				inconcl = r.partial.Inconclusive
				fmt.Fprintf(os.Stderr, "shard %d: %s\n%s\n", r.shard, inconcl, tail(r.log, 30))
			case statErr == nil:
				dst := filepath.Join(verifDir, "replays", fmt.Sprintf("%s-%s-seed%d-shard%d.json", p.ID, tier, seed, r.shard))
				_ = copyFile(r.failFile, dst)
				_ = copyFile(r.log, strings.TrimSuffix(dst, ".json")+".log")
				violations = append(violations, dst)
				fmt.Printf("shard %d failed:\n%s\n", r.shard, tail(r.log, 40))
			case p.Fatal && fileNonEmpty(r.journal) && r.exit != 1:
				// the process died (Go fatal error: exit 2; race report: exit 66; signal) while executing
				// the journalled case. Exit 1 is an ordinary test failure: without a recorded failing
				// case it is a failure of the harness itself (a panic in a generator, say) and falls
				// through to the inconclusive branch.
				dst := filepath.Join(verifDir, "replays", fmt.Sprintf("%s-%s-seed%d-shard%d.json", p.ID, tier, seed, r.shard))
				_ = copyFile(r.journal, dst)
				_ = copyFile(r.log, strings.TrimSuffix(dst, ".json")+".log")
				violations = append(violations, dst)
				fmt.Printf("shard %d died (exit %d); journalled case kept:\n%s\n", r.shard, r.exit, tail(r.log, 40))
			default:
				inconcl = fmt.Sprintf("shard-%d-exit-%d-without-failing-case", r.shard, r.exit)
				fmt.Fprintf(os.Stderr, "shard %d exit %d; log tail:\n%s\n", r.shard, r.exit, tail(r.log, 60))
			}
		}
	}

	cov := map[string]any{
		"evaluations":         evals,
		"cases":               cases,
		"nontrivial":          nontriv,
		"distinct_nontrivial": len(hashes),
		"rule":                rule,
		"samples":             samples,
		"classes":             sortedCounts(classes),
		"shards":              tc.Shards,
		"checks_per_shard":    tc.Checks,
		"hooks_enabled":       hooks,
	}
	if len(known) > 0 {
		cov["excluded_by_known_finding"] = sortedCounts(known)
	}
	for k, v := range extraCov {
		cov[k] = v
	}
	if samples == nil {
		cov["samples"] = []any{}
	}
	ev := evidence{
		PropertyID: p.ID, Tier: tier, Seed: seed, Level: "exploration", Coverage: cov,
		Assumptions: assumptions, WallS: time.Since(start).Seconds(), Violations: len(violations),
	}
	if ev.Assumptions == nil {
		ev.Assumptions = []string{}
	}
	b, _ := json.MarshalIndent(&ev, "", " ")
	_ = os.MkdirAll(filepath.Join(verifDir, "evidence"), 0o755)
	_ = os.WriteFile(filepath.Join(verifDir, "evidence", p.ID+".json"), append(b, '\n'), 0o644)

	// Known findings: one line per open finding that this run reproduced (by its saved case or in the search).
	for _, f := range loadFindings() {
		if f.Property != p.ID || f.Status != "open" {
			continue
		}
		reproduced := known[f.Key] > 0
		if !reproduced && f.Replay != "" {
			reproduced = replay(p, work, filepath.Join(verifDir, f.Replay), false) == 1
		}
		if reproduced {
			fmt.Printf("KNOWN-FINDING: property=%s %s [%s] (hits in this run: %d)\n", p.ID, f.What, f.Key, known[f.Key])
		} else {
			fmt.Printf("NOTE property=%s known finding %s no longer reproduces\n", p.ID, f.Key)
		}
	}

	fmt.Printf("SUMMARY property=%s tier=%s seed=%d evaluations=%d distinct_nontrivial=%d wall=%.1fs\n",
		p.ID, tier, seed, evals, len(hashes), time.Since(start).Seconds())
	if len(violations) > 0 {
		for _, v := range violations {
			fmt.Printf("VIOLATION property=%s replay=%s\n", p.ID, v)
		}
		return 1
	}
	if inconcl != "" {
		fmt.Printf("INCONCLUSIVE property=%s reason=%s\n", p.ID, inconcl)
		return 2
	}
	return 0
}

// runFuzz runs one native fuzz campaign with `go test -fuzz` in the harness module.
func runFuzz(p *propCfg, fz fuzzCfg, work string, seed int64, hooks bool, openKeys []string) (violations []string, inconclusive string, execs int64) {
	fail := filepath.Join(work, "fuzzfail_"+fz.Target+".json")
	journal := filepath.Join(work, "fuzzjournal_"+fz.Target+".json")
	harnessPanic := filepath.Join(work, "fuzzharnesspanic_"+fz.Target+".txt")
	args := []string{"test", "-vet=off", "-run", "^$", "-fuzz", "^" + fz.Target + "$", "-fuzztime", fz.Dur.String(), "-parallel", "16"}
	if hooks {
		args = append(args, "-tags", "verif")
	}
	args = append(args, "./props")
	cmd := exec.Command("go", args...)
	cmd.Dir = harnessDir
	cmd.Env = append(baseEnv(), "VERIF_FAIL="+fail, "VERIF_JOURNAL="+journal, "VERIF_HARNESS_PANIC="+harnessPanic, "VERIF_TIER=thorough",
		"VERIF_HOOKS="+map[bool]string{true: "1", false: "0"}[hooks], "VERIF_REPO="+repoDir, "VERIF_DIR="+verifDir,
		// open known findings stay attributed inside the fuzz workers too (their 5 % slices are part of the property bodies)
		"VERIF_KNOWN_OPEN="+strings.Join(openKeys, ","))
	out, err := cmd.CombinedOutput()
	for _, line := range strings.Split(string(out), "\n") {
		if i := strings.Index(line, "execs: "); i >= 0 {
			var n int64
			fmt.Sscanf(line[i+7:], "%d", &n)
			if n > execs {
				execs = n
			}
		}
	}
	// crashers written by the go tool into the source tree are moved out of it
	crashDir := filepath.Join(harnessDir, "props", "testdata", "fuzz", fz.Target)
	var crashers []string
	if ents, e := os.ReadDir(crashDir); e == nil {
		for _, ent := range ents {
			dst := filepath.Join(verifDir, "replays", fmt.Sprintf("%s-fuzz-%s-%s", p.ID, fz.Target, ent.Name()))
			if copyFile(filepath.Join(crashDir, ent.Name()), dst) == nil {
				crashers = append(crashers, dst)
			}
		}
		_ = os.RemoveAll(filepath.Join(harnessDir, "props", "testdata"))
	}
	if err == nil {
		if fileNonEmpty(harnessPanic) {
			b, _ := os.ReadFile(harnessPanic)
			fmt.Fprintf(os.Stderr, "fuzz target %s: the harness itself panicked (inputs dropped):\n%s\n", fz.Target, lastLines(string(b), 10))
			return nil, "fuzz-" + fz.Target + "-harness-panic", execs
		}
		return nil, "", execs
	}
	fmt.Printf("fuzz target %s failed:\n%s\n", fz.Target, lastLines(string(out), 40))
	switch {
	case fileNonEmpty(fail):
		dst := filepath.Join(verifDir, "replays", fmt.Sprintf("%s-fuzz-%s-seed%d.json", p.ID, fz.Target, seed))
		_ = copyFile(fail, dst)
		return []string{dst}, "", execs
	case p.Fatal && fileNonEmpty(journal):
		dst := filepath.Join(verifDir, "replays", fmt.Sprintf("%s-fuzz-%s-seed%d.json", p.ID, fz.Target, seed))
		_ = copyFile(journal, dst)
		return []string{dst}, "", execs
	case len(crashers) > 0:
		return crashers[:1], "", execs
	}
	return nil, "fuzz-" + fz.Target + "-failed-without-crasher", execs
}

func fileNonEmpty(p string) bool {
	st, err := os.Stat(p)
	return err == nil && st.Size() > 0
}

func sortedCounts(m map[string]int64) map[string]int64 {
	// encoding/json sorts map keys; this just guarantees a non-nil map.
	if m == nil {
		return map[string]int64{}
	}
	return m
}

// stages holds optional extra per-property stages (fuzzing, fresh-process repetitions ...).
// A stage returns replay paths of violations and an inconclusive reason.
type stageFn func(p *propCfg, bin, work, tier string, seed int64, hooks bool, openKeys []string, cov map[string]any) ([]string, string)

var stages = map[string]stageFn{}

func init() {
	// C16: the documented JSONSCHEMAGODEBUG=typeschemasnull=1 configuration, in a child process.
	stages["C16"] = func(p *propCfg, bin, work, tier string, seed int64, hooks bool, openKeys []string, cov map[string]any) ([]string, string) {
		checks := 2500
		if tier == "thorough" {
			checks = 60000
		}
		r := runShard(p, bin, work, tier, seed, 200, checks, 20*time.Minute, hooks, openKeys, []string{"JSONSCHEMAGODEBUG=typeschemasnull=1"}, p.Test)
		if r.exit != 0 {
			if _, err := os.Stat(r.failFile); err == nil {
				dst := filepath.Join(verifDir, "replays", fmt.Sprintf("%s-%s-seed%d-typeschemasnull.json", p.ID, tier, seed))
				_ = copyFile(r.failFile, dst)
				fmt.Printf("typeschemasnull=1 run failed:\n%s\n", tail(r.log, 30))
				return []string{dst}, ""
			}
			return nil, fmt.Sprintf("typeschemasnull-run-exit-%d", r.exit)
		}
		if r.partial != nil {
			cov["typeschemasnull_config_cases"] = r.partial.Cases
		}
		return nil, ""
	}
	// C14 (3): the same seed in several fresh processes (fresh hash seeds, fresh map orders);
	// per-case digests (case hash, result hash) must agree.
	stages["C14"] = func(p *propCfg, bin, work, tier string, seed int64, hooks bool, openKeys []string, cov map[string]any) ([]string, string) {
		procs, checks := 3, 1500
		if tier == "thorough" {
			procs, checks = 8, 12000
		}
		files := make([]string, procs)
		var wg sync.WaitGroup
		res := make([]shardResult, procs)
		for i := 0; i < procs; i++ {
			files[i] = filepath.Join(work, fmt.Sprintf("digest_%d.txt", i))
			wg.Add(1)
			go func(i int) {
				defer wg.Done()
				res[i] = runShard(p, bin, work, tier, seed, 100+i, checks, 10*time.Minute, hooks, openKeys,
					[]string{"VERIF_DIGEST=" + files[i], "VERIF_FORCE_RAPID_SEED=" + strconv.FormatUint(rapidSeed(seed, 777), 10)}, p.Test)
			}(i)
		}
		wg.Wait()
		var ref []string
		compared := 0
		for i := 0; i < procs; i++ {
			if res[i].exit != 0 {
				// a failure inside a digest process is reported by its own fail file
				if _, err := os.Stat(res[i].failFile); err == nil {
					dst := filepath.Join(verifDir, "replays", fmt.Sprintf("%s-%s-seed%d-proc%d.json", p.ID, tier, seed, i))
					_ = copyFile(res[i].failFile, dst)
					return []string{dst}, ""
				}
				return nil, fmt.Sprintf("digest-process-%d-exit-%d", i, res[i].exit)
			}
			b, err := os.ReadFile(files[i])
			if err != nil {
				return nil, "digest-file-missing"
			}
			lines := strings.Split(strings.TrimSpace(string(b)), "\n")
			if i == 0 {
				ref = lines
				continue
			}
			if len(lines) != len(ref) {
				return nil, "digest-length-differs-between-processes"
			}
			for j := range lines {
				a, b := strings.Fields(ref[j]), strings.Fields(lines[j])
				if len(a) != 3 || len(b) != 3 {
					return nil, "digest-format"
				}
				if a[1] != b[1] {
					return nil, "harness-generation-not-deterministic-across-processes"
				}
				compared++
				if a[2] != b[2] {
					dst := filepath.Join(verifDir, "replays", fmt.Sprintf("%s-%s-seed%d-crossprocess.json", p.ID, tier, seed))
					msg := fmt.Sprintf(`{"property":%q,"message":"case %s of rapid seed %d: result digest differs between two fresh processes (%s vs %s); re-run the check with the same VERIF_SEED to reproduce","case":null}`, p.ID, a[0], rapidSeed(seed, 777), a[2], b[2])
					_ = os.MkdirAll(filepath.Dir(dst), 0o755)
					_ = os.WriteFile(dst, []byte(msg), 0o644)
					return []string{dst}, ""
				}
			}
		}
		cov["cross_process_runs"] = procs
		cov["cross_process_case_digests_compared"] = compared
		return nil, ""
	}
}

func selftest() {
	_ = os.MkdirAll(filepath.Join(verifDir, ".build"), 0o755)
	work, err := os.MkdirTemp(filepath.Join(verifDir, ".build"), "selftest-")
	if err != nil {
		fmt.Println("selftest: no workdir")
		os.Exit(2)
	}
	defer os.RemoveAll(work)
	bin, _ := build("selftest", work, false)
	cmd := exec.Command(bin, "-test.run", "^TestSelf", "-test.count=1", "-test.timeout=20m")
	cmd.Dir = work
	cmd.Env = append(baseEnv(), "VERIF_REPO="+repoDir, "VERIF_DIR="+verifDir)
	out, err := cmd.CombinedOutput()
	fmt.Printf("%s\n", lastLines(string(out), 30))
	if err != nil {
		fmt.Println("SELFTEST FAILED")
		os.Exit(2)
	}
	fmt.Println("SELFTEST OK")
}
