// Package ev collects what a check actually explored (evaluations, distinct non-trivial
// cases, class counters, samples, known-finding hits) and writes it as a partial evidence
// file that the driver (cmd/check) merges into /verif/evidence/<ID>.json.
//
// It is deliberately free of any randomness and of any dependence on map iteration order:
// sample selection is by case index, class counters are written sorted.
package ev

import (
	"bytes"
	"encoding/binary"
	"encoding/json"
	"fmt"
	"hash/fnv"
	"os"
	"sort"
	"sync"
	"sync/atomic"
	"time"
)

// Partial is the on-disk form written by one test process.
type Partial struct {
	Property     string            `json:"property"`
	Cases        int64             `json:"cases"`       // property invocations that ran their oracle to completion
	Evaluations  int64             `json:"evaluations"` // oracle evaluations (>= cases when a case probes several instances)
	NonTrivial   int64             `json:"nontrivial"`  // non-trivial evaluations (not de-duplicated)
	Distinct     int64             `json:"distinct_nontrivial_local"`
	Classes      map[string]int64  `json:"classes"`
	Known        map[string]int64  `json:"known_finding_hits"`
	KnownWhat    map[string]string `json:"known_finding_what"`
	Samples      []any             `json:"samples"`
	Rule         string            `json:"rule"`
	Assumptions  []string          `json:"assumptions"`
	Extra        map[string]any    `json:"extra,omitempty"`
	HashFile     string            `json:"hash_file"`
	Failed       bool              `json:"failed"`
	FailMsg      string            `json:"fail_msg,omitempty"`
	Inconclusive string            `json:"inconclusive,omitempty"`
}

// Recorder accumulates evidence for one property in one process.
type Recorder struct {
	mu      sync.Mutex
	p       Partial
	hashes  map[uint64]struct{}
	nextSam int64
	out     string
	failOut string
}

var (
	regMu sync.Mutex
	reg   = map[string]*Recorder{}
)

// For returns the process-wide recorder of a property.
func For(prop string) *Recorder {
	regMu.Lock()
	defer regMu.Unlock()
	if r, ok := reg[prop]; ok {
		return r
	}
	r := &Recorder{
		hashes:  map[uint64]struct{}{},
		out:     os.Getenv("VERIF_OUT"),
		failOut: os.Getenv("VERIF_FAIL"),
		nextSam: 1,
	}
	r.p.Property = prop
	r.p.Classes = map[string]int64{}
	r.p.Known = map[string]int64{}
	r.p.KnownWhat = map[string]string{}
	reg[prop] = r
	return r
}

// Describe sets the rule text and the assumptions (idempotent).
func (r *Recorder) Describe(rule string, assumptions ...string) {
	r.mu.Lock()
	defer r.mu.Unlock()
	r.p.Rule = rule
	r.p.Assumptions = assumptions
}

// Hash64 hashes a canonical key.
func Hash64(parts ...[]byte) uint64 {
	h := fnv.New64a()
	for _, p := range parts {
		var l [4]byte
		binary.LittleEndian.PutUint32(l[:], uint32(len(p)))
		h.Write(l[:])
		h.Write(p)
	}
	return h.Sum64()
}

// Case marks one property invocation as completed.
func (r *Recorder) Case() {
	r.mu.Lock()
	r.p.Cases++
	r.mu.Unlock()
}

// Eval records one oracle evaluation. key is the canonical form of the case (used for
// distinctness); sample is called only when this evaluation is chosen as a sample.
func (r *Recorder) Eval(nontrivial bool, key []byte, sample func() any) {
	r.mu.Lock()
	defer r.mu.Unlock()
	r.p.Evaluations++
	if !nontrivial {
		return
	}
	r.p.NonTrivial++
	h := Hash64(key)
	if _, ok := r.hashes[h]; ok {
		return
	}
	r.hashes[h] = struct{}{}
	n := int64(len(r.hashes))
	// samples at distinct-nontrivial indexes 1, 4, 16, 64, ... (deterministic, at most 10)
	if n == r.nextSam && len(r.p.Samples) < 10 && sample != nil {
		r.p.Samples = append(r.p.Samples, sample())
		r.nextSam *= 4
	}
}

// Class increments a class counter.
func (r *Recorder) Class(name string) { r.ClassN(name, 1) }

// ClassN adds n to a class counter.
func (r *Recorder) ClassN(name string, n int64) {
	r.mu.Lock()
	r.p.Classes[name] += n
	r.mu.Unlock()
}

// ClassIf increments a counter when cond holds.
func (r *Recorder) ClassIf(cond bool, name string) {
	if cond {
		r.Class(name)
	}
}

// SetExtra stores an additional top-level coverage key.
func (r *Recorder) SetExtra(k string, v any) {
	r.mu.Lock()
	if r.p.Extra == nil {
		r.p.Extra = map[string]any{}
	}
	r.p.Extra[k] = v
	r.mu.Unlock()
}

// Known records that a failing case was attributed to an open known finding.
func (r *Recorder) Known(key, what string) {
	r.mu.Lock()
	r.p.Known[key]++
	r.p.KnownWhat[key] = what
	r.mu.Unlock()
}

// Fail stores the failing case (overwriting earlier ones: rapid re-runs the property while
// shrinking and once more on the minimal case, so the last one written is the minimal one).
func (r *Recorder) Fail(c any, msg string) {
	r.mu.Lock()
	defer r.mu.Unlock()
	r.p.Failed = true
	r.p.FailMsg = msg
	if r.failOut == "" {
		return
	}
	b, err := json.MarshalIndent(map[string]any{"property": r.p.Property, "message": msg, "case": c}, "", " ")
	if err != nil {
		b = []byte(fmt.Sprintf(`{"property":%q,"message":%q,"case_marshal_error":%q}`, r.p.Property, msg, err.Error()))
	}
	_ = os.WriteFile(r.failOut, b, 0o644)
}

// Inconclusive marks a harness-side problem (never a violation).
func (r *Recorder) Inconclusive(reason string) {
	r.mu.Lock()
	r.p.Inconclusive = reason
	r.mu.Unlock()
}

// Flush writes the partial evidence and the hash file. Safe to call many times.
func (r *Recorder) Flush() {
	r.mu.Lock()
	defer r.mu.Unlock()
	if r.out == "" {
		return
	}
	r.p.Distinct = int64(len(r.hashes))
	r.p.HashFile = r.out + ".hashes"
	hs := make([]uint64, 0, len(r.hashes))
	for h := range r.hashes {
		hs = append(hs, h)
	}
	sort.Slice(hs, func(i, j int) bool { return hs[i] < hs[j] })
	var buf bytes.Buffer
	buf.Grow(8 * len(hs))
	var b8 [8]byte
	for _, h := range hs {
		binary.LittleEndian.PutUint64(b8[:], h)
		buf.Write(b8[:])
	}
	_ = os.WriteFile(r.p.HashFile, buf.Bytes(), 0o644)
	b, _ := json.MarshalIndent(&r.p, "", " ")
	_ = os.WriteFile(r.out, b, 0o644)
}

// FlushAll flushes every recorder of the process (called from TestMain).
func FlushAll() {
	regMu.Lock()
	rs := make([]*Recorder, 0, len(reg))
	for _, r := range reg {
		rs = append(rs, r)
	}
	regMu.Unlock()
	for _, r := range rs {
		r.Flush()
	}
}

// JSON is a helper that marshals v compactly, for use as a distinctness key.
func JSON(v any) []byte {
	b, err := json.Marshal(v)
	if err != nil {
		return []byte(fmt.Sprintf("%#v", v))
	}
	return b
}

type current struct {
	prop  string
	since time.Time
	c     any
}

var cur atomic.Pointer[current]

// SetCurrent records the case a property body is working on (nil: between cases). The watchdog
// started by StartWatchdog uses it to turn a case that never finishes into a diagnosable event.
func SetCurrent(prop string, c any) {
	if c == nil {
		cur.Store(nil)
		return
	}
	cur.Store(&current{prop, time.Now(), c})
}

// StartWatchdog: if one case stays current for longer than VERIF_STUCK_SECONDS (default 600), the
// case is written to VERIF_STUCK and the process exits with status 3. That is a statement about
// this run (INCONCLUSIVE), not about the code under test: the time may have gone into the
// generator or the reference model just as well. Hangs of the library are the business of the
// deadlines inside C03, C10 and C16.
func StartWatchdog() {
	out := os.Getenv("VERIF_STUCK")
	if out == "" {
		return
	}
	limit := 600 * time.Second
	if v := os.Getenv("VERIF_STUCK_SECONDS"); v != "" {
		if n, err := time.ParseDuration(v + "s"); err == nil && n > 0 {
			limit = n
		}
	}
	go func() {
		for {
			time.Sleep(5 * time.Second)
			c := cur.Load()
			if c == nil || time.Since(c.since) < limit {
				continue
			}
			b, err := json.Marshal(map[string]any{"property": c.prop, "message": fmt.Sprintf("one case did not finish within %s (generator, reference model or library: unknown)", limit), "case": c.c})
			if err != nil {
				b = []byte(fmt.Sprintf(`{"property":%q,"message":"stuck case could not be serialised: %v"}`, c.prop, err))
			}
			_ = os.WriteFile(out, b, 0o644)
			fmt.Fprintf(os.Stderr, "WATCHDOG: a case of %s has been running for more than %s; written to %s\n", c.prop, limit, out)
			os.Exit(3)
		}
	}()
}

// Journal writes the case that is about to be executed to VERIF_JOURNAL (overwriting the
// previous one), so that a fatal, unrecoverable runtime error (stack exhaustion, a race
// report with halt_on_error) still leaves a replayable case behind.
func Journal(prop string, c any) {
	p := os.Getenv("VERIF_JOURNAL")
	if p == "" {
		return
	}
	b, err := json.Marshal(map[string]any{"property": prop, "message": "journalled case: the process died while executing it (fatal runtime error)", "case": c})
	if err != nil {
		return
	}
	_ = os.WriteFile(p, b, 0o644)
}
