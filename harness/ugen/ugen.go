// Package ugen generates URI universes for the reference-resolution properties: documents
// with trees of embedded resources ($id absolute / relative / ../ / ./ / urn:), anchors
// scoped to their resource, and references chosen target first, spelling second ('#',
// '#/ptr', '#anchor', 'rel', 'rel#anchor', 'rel#/ptr', absolute, dot-segments, canonical-id
// vs retrieval-URI aliases), forming chains, diamonds and cycles (always through
// "properties", an instance-descending keyword).
//
// Every node is a possible target and accepts exactly: its own marker string, or any object
// (which is then routed on through "properties"). So an instance {"q0":{"q1":"m7"}} is valid
// iff following reference q0 from the root and q1 from there ends at the node marked m7.
//
// Stated domain restrictions (DESIGN.md section 3.5 (a)-(g)) are enforced by construction.
package ugen

import (
	"fmt"
	"sort"
	"strings"

	"pgregory.net/rapid"

	"verif/jv"
	"verif/refmodel"
)

// Universe is serialisable (replay files).
type Universe struct {
	BaseURI   string            `json:"base_uri"` // ResolveOptions.BaseURI ("" = none) == retrieval URI of the root
	Root      *jv.V             `json:"root"`
	Docs      map[string]*jv.V  `json:"docs"`            // URI served by the loader -> document (aliases map to equal documents)
	Alias     map[string]string `json:"alias,omitempty"` // alias URI -> primary retrieval URI
	LoaderNil bool              `json:"loader_nil,omitempty"`
	Faults    []string          `json:"faults,omitempty"` // URIs on which the loader errors
	Routes    []Route           `json:"routes"`
	Markers   []string          `json:"markers"`
	Notes     []string          `json:"notes,omitempty"`
	// EmptyRefs: known-finding slice — some references to the referrer's own resource root are
	// spelled as the empty string (RFC 3986: the base URI itself).
	EmptyRefs bool `json:"empty_refs,omitempty"`
	// Standalone: URIs of resources that are embedded in a Loader document and are ALSO served by
	// the Loader on their own (same content). Only those may be named from other documents
	// (restriction (a)); they are never chosen for loader faults.
	Standalone []string `json:"standalone,omitempty"`
}

// Route is a path of property names from the root; following it ends at the node whose
// marker is Intended.
type Route struct {
	Path     []string `json:"path"`
	Intended string   `json:"intended"`
	Kinds    []string `json:"kinds"` // spelling kind of each hop
}

type node struct {
	doc      *doc
	parent   *node
	name     string // key under parent's $defs
	children []*node
	id       string // $id spelling ("" = none)
	idHash   bool   // the $id is written with a trailing empty fragment ("x.json#"), which changes nothing
	base     refmodel.URI
	resource *node
	anchor   string
	marker   string
	refs     []*ref
	ptr      string // pointer from the document root
	rptr     string // pointer from the resource root ("" for the resource root)
	crosses  bool   // the path from the resource root passes ... (unused)
	v        *jv.V
}

type ref struct {
	name   string // property name
	target *node
	text   string
	kind   string
}

type doc struct {
	retrieval string // "" for a base-less root
	root      *node
	isRoot    bool
	aliasOf   string
	canonical string // absolute canonical $id of the document root when it differs from retrieval
}

type gen struct {
	t       *rapid.T
	docs    []*doc
	nodes   []*node
	nmark   int
	usedURI map[string]bool
	hasBase bool
	notes   []string
	empty   bool // known-finding slice: spell some self references as ""
	// embedded resources of Loader documents that the Loader also serves on their own
	standalone map[*node]bool
}

func (g *gen) n(k int, l string) int { return rapid.IntRange(0, k-1).Draw(g.t, l) }

var anchorNames = []string{"foo", "bar", "A1"}

// Gen draws a universe. dangling=false: every reference designates something.
func Gen(t *rapid.T) *Universe {
	g := &gen{t: t, usedURI: map[string]bool{}}
	g.hasBase = g.n(4, "hasbase") > 0
	g.empty = g.n(20, "emptyrefs") == 0
	loader := g.n(5, "loader") > 0
	nRemote := 0
	if loader {
		nRemote = g.n(4, "nremote")
	}
	rootRetrieval := ""
	if g.hasBase {
		rootRetrieval = rapid.SampledFrom([]string{"http://h.test/root.json", "http://h.test/dir/root.json", "http://h.test/a/b/root.json", "http://h.test/dir/root.json", "http://p.test", "http://p.test/", "http://h.test/dir/", "http://h.test/dir/root.json?v=1"}).Draw(t, "rooturi")
	}
	g.newDoc(rootRetrieval, true)
	remoteURIs := []string{"http://h.test/a.json", "http://h.test/dir/b.json", "http://other.test/c.json", "http://h.test/a/b/d.json", "http://h.test/dir/sub/e.json", "http://q.test", "http://h.test/Case.json", "http://h.test/case.json", "http://h.test/dir/B.json"}
	for i := 0; i < nRemote; i++ {
		g.newDoc(remoteURIs[(i+g.n(len(remoteURIs), "remoteuri"))%len(remoteURIs)], false)
	}
	// dedupe documents that drew the same retrieval URI
	{
		seen := map[string]bool{}
		var ds []*doc
		for _, d := range g.docs {
			if d.isRoot || !seen[d.retrieval] {
				ds = append(ds, d)
			}
			seen[d.retrieval] = true
		}
		g.docs = ds
	}
	for _, d := range g.docs {
		g.buildTree(d)
	}
	g.standalone = map[*node]bool{}
	if loader {
		for _, n := range g.nodes {
			if n.resource == n && n.parent != nil && !n.doc.isRoot && n.base.Scheme == "http" && g.n(3, "standalone") == 0 {
				g.standalone[n] = true
			}
		}
	}
	for _, n := range g.nodes {
		g.chooseRefs(n)
	}
	u := &Universe{BaseURI: rootRetrieval, Docs: map[string]*jv.V{}, Alias: map[string]string{}, LoaderNil: !loader, EmptyRefs: g.empty}
	for _, d := range g.docs {
		v := g.render(d.root)
		if d.isRoot {
			u.Root = v
		} else {
			u.Docs[d.retrieval] = v
			if d.canonical != "" && d.canonical != d.retrieval {
				// restriction (b): also served at its canonical $id
				u.Docs[d.canonical] = v
				u.Alias[d.canonical] = d.retrieval
			}
		}
	}
	for _, n := range g.nodes {
		if g.standalone[n] {
			uri := n.base.String()
			if _, taken := u.Docs[uri]; !taken {
				cp := g.render(n).Clone()
				// on its own the resource is retrieved from its canonical URI; a relative $id would
				// be resolved against that instead of against the embedding resource
				cp.Set("$id", jv.StrV(uri))
				u.Docs[uri] = cp
				u.Standalone = append(u.Standalone, uri)
			}
		}
	}
	sort.Strings(u.Standalone)
	for _, n := range g.nodes {
		u.Markers = append(u.Markers, n.marker)
	}
	u.Routes = g.routes()
	u.Notes = g.notes
	return u
}

func (g *gen) newDoc(retrieval string, isRoot bool) *doc {
	d := &doc{retrieval: retrieval, isRoot: isRoot}
	g.docs = append(g.docs, d)
	return d
}

func (g *gen) newNode(d *doc, parent *node, name string) *node {
	g.nmark++
	n := &node{doc: d, parent: parent, name: name, marker: fmt.Sprintf("m%d", g.nmark)}
	g.nodes = append(g.nodes, n)
	return n
}

func (g *gen) claim(u refmodel.URI) bool {
	s := u.String()
	if g.usedURI[s] {
		return false
	}
	g.usedURI[s] = true
	return true
}

func (g *gen) buildTree(d *doc) {
	root := g.newNode(d, nil, "")
	d.root = root
	root.resource = root
	root.base = refmodel.ParseURI(d.retrieval)
	if d.retrieval != "" {
		g.usedURI[d.retrieval] = true
	}
	// document-root $id
	switch k := g.n(6, "rootid"); {
	case k == 0 && d.retrieval != "": // same as retrieval
		root.id = d.retrieval
	case k == 1: // absolute alias (canonical differs from retrieval)
		cand := fmt.Sprintf("http://canon.test/c%d.json", len(g.usedURI))
		if g.claim(refmodel.ParseURI(cand)) {
			root.id = cand
			root.base = refmodel.ParseURI(cand)
			d.canonical = cand
		}
	case k == 2 && d.retrieval != "": // relative $id resolved against the retrieval URI
		rel := rapid.SampledFrom([]string{"renamed.json", "x/renamed.json", "../up-renamed.json", "./dot-renamed.json"}).Draw(g.t, "relrootid")
		nb := refmodel.Resolve(root.base, refmodel.ParseURI(rel))
		if !d.isRoot {
			// a loaded document with a relative $id has a canonical URI that depends on how it was
			// reached; keep loaded documents to absolute ids (aliases stay well-defined)
			break
		}
		if g.claim(nb) {
			root.id = rel
			root.base = nb
		}
	case k == 3 && d.isRoot && d.retrieval == "": // base-less root with an absolute $id
		cand := "http://rootid.test/r.json"
		if g.claim(refmodel.ParseURI(cand)) {
			root.id = cand
			root.base = refmodel.ParseURI(cand)
		}
	}
	if root.id != "" && g.n(6, "idhash") == 0 {
		root.idHash = true
	}
	if g.n(3, "rootanchor") == 0 {
		root.anchor = rapid.SampledFrom(anchorNames).Draw(g.t, "anchor")
	}
	g.addChildren(root, 2)
}

func (g *gen) addChildren(p *node, depth int) {
	if depth == 0 {
		return
	}
	k := g.n(4, "nchildren")
	for i := 0; i < k; i++ {
		c := g.newNode(p.doc, p, fmt.Sprintf("e%d", i))
		p.children = append(p.children, c)
		c.resource = p.resource
		c.base = p.base
		// embedded resource?
		if g.n(5, "isresource") < 2 {
			var id string
			absBase := p.base.IsAbs()
			switch kk := g.n(7, "idkind"); {
			case kk == 0:
				id = fmt.Sprintf("http://h.test/emb/r%d.json", g.nmark)
			case kk == 1:
				id = fmt.Sprintf("urn:x:e%d", g.nmark)
			case kk == 2 && absBase:
				id = fmt.Sprintf("nested%d.json", g.nmark)
			case kk == 3 && absBase:
				id = fmt.Sprintf("../up%d.json", g.nmark)
			case kk == 4 && absBase:
				id = fmt.Sprintf("./dot%d.json", g.nmark)
			case kk == 5 && absBase:
				id = fmt.Sprintf("sub/dir/deep%d.json", g.nmark)
			case kk == 6 && absBase:
				id = fmt.Sprintf("/abs-path%d.json", g.nmark)
			}
			if id != "" && strings.HasPrefix(p.base.Scheme, "urn") && !refmodel.ParseURI(id).IsAbs() {
				id = "" // restriction (f): nothing relative under an opaque base
			}
			if id != "" {
				nb := refmodel.Resolve(p.base, refmodel.ParseURI(id))
				if nb.IsAbs() && g.claim(nb) {
					c.id = id
					c.base = nb
					c.resource = c
					c.idHash = g.n(6, "idhash") == 0
				}
			}
		}
		if g.n(5, "anchor") < 2 {
			a := rapid.SampledFrom(anchorNames).Draw(g.t, "anchor")
			if !g.anchorTaken(c.resource, a, c) {
				c.anchor = a
			}
		}
		g.addChildren(c, depth-1)
	}
}

func (g *gen) anchorTaken(res *node, a string, except *node) bool {
	for _, n := range g.nodes {
		if n != except && n.resource == res && n.anchor == a {
			return true
		}
	}
	return false
}

func (n *node) computePtrs() {
	if n.parent == nil {
		n.ptr, n.rptr = "", ""
		return
	}
	n.ptr = n.parent.ptr + "/$defs/" + n.name
	if n.resource == n {
		n.rptr = ""
	} else {
		n.rptr = n.parent.rptr + "/$defs/" + n.name
	}
}

// identifications lists the ways target tg can be named from referrer rf, as absolute
// "uri#fragment" strings plus a kind label.
// standaloneRoot: the innermost ancestor-or-self of n that is also served on its own, or nil
// (whatever lies within the innermost one lies within the outer ones as well).
func (g *gen) standaloneRoot(n *node) *node {
	for x := n; x != nil; x = x.parent {
		if g.standalone[x] {
			return x
		}
	}
	return nil
}

func within(n, root *node) bool {
	for x := n; x != nil; x = x.parent {
		if x == root {
			return true
		}
	}
	return false
}

func (g *gen) identifications(rf, tg *node) (out [][2]string) {
	sameDoc := rf.doc == tg.doc
	if sr := g.standaloneRoot(rf); sr != nil && !within(tg, sr) {
		// rf also lives in a document of its own (the standalone copy of sr), which must be
		// self-contained: whatever lies outside sr is another document to it
		sameDoc = false
	}
	res := tg.resource
	resURI := res.base.String()
	// restriction (a): across documents only the target document's root resource is nameable
	if !sameDoc && res != tg.doc.root && !g.standalone[res] {
		return nil
	}
	// restriction (c): a base-less, id-less root resource can only be named by fragment-only refs
	resNameable := res.base.IsAbs()
	if !resNameable && !(sameDoc && rf.resource == res) {
		return nil
	}
	uris := []struct{ u, k string }{}
	if resNameable {
		uris = append(uris, struct{ u, k string }{resURI, "canonical"})
		if res == tg.doc.root && tg.doc.retrieval != "" && tg.doc.retrieval != resURI {
			// the retrieval URI names the document root too — but only from other documents or
			// from this document when it is the root (the library registers the load URI)
			uris = append(uris, struct{ u, k string }{tg.doc.retrieval, "retrieval-alias"})
		}
	} else {
		uris = append(uris, struct{ u, k string }{"", "same-resource"})
	}
	for _, u := range uris {
		if tg == res {
			out = append(out, [2]string{u.u, u.k + "/root"})
			if g.n(3, "emptyfrag") == 0 {
				out = append(out, [2]string{u.u + "#", u.k + "/empty-fragment"})
			}
		}
		if tg.anchor != "" {
			out = append(out, [2]string{u.u + "#" + tg.anchor, u.k + "/anchor"})
		}
		if tg != res {
			// restriction (e): the pointer must not pass through (or end at) another resource root
			out = append(out, [2]string{u.u + "#" + tg.rptr, u.k + "/pointer"})
		}
	}
	return out
}

// relativise spells absolute reference abs relative to base in one of several ways.
func (g *gen) relativise(base refmodel.URI, abs string) (string, string) {
	a := refmodel.ParseURI(abs)
	frag := ""
	if a.HasFrag {
		frag = "#" + a.Fragment
	}
	if !a.IsAbs() {
		return abs, "fragment-only"
	}
	same := a.WithoutFragment().String() == base.String()
	opaque := func(u refmodel.URI) bool { return u.Scheme == "urn" }
	if same && a.HasFrag && g.n(3, "keepabs") > 0 {
		return frag, "fragment-only"
	}
	if opaque(base) || opaque(a) || !base.IsAbs() || base.Scheme != a.Scheme || base.Authority != a.Authority {
		return abs, "absolute"
	}
	if a.HasQuery {
		// a target URI with a query is spelled in full (or by fragment alone, above)
		return abs, "absolute"
	}
	if a.Path == "" {
		// a target URI without a path can only be spelled with its authority
		if g.n(2, "nopath") == 0 {
			return "//" + a.Authority + frag, "network-path"
		}
		return abs, "absolute"
	}
	switch g.n(8, "relkind") {
	case 0:
		return abs, "absolute"
	case 6:
		// an absolute reference whose path still contains dot segments (RFC 3986 5.2.2 removes
		// them even when the reference has a scheme)
		if a.HasAuth && strings.HasPrefix(a.Path, "/") {
			return a.Scheme + "://" + a.Authority + "/zz/.." + strings.Replace(a.Path, "/", "/./", 1) + frag, "absolute-dot-segments"
		}
		return abs, "absolute"
	case 7:
		if strings.HasPrefix(a.Path, "/") {
			return "/yy/../." + a.Path + frag, "absolute-path-dot-segments"
		}
		return abs, "absolute"
	case 1:
		return a.Path + frag, "absolute-path"
	case 2:
		return "//" + a.Authority + a.Path + frag, "network-path"
	}
	// path-relative
	bdir := base.Path[:strings.LastIndex(base.Path, "/")+1]
	adir := a.Path[:strings.LastIndex(a.Path, "/")+1]
	afile := a.Path[strings.LastIndex(a.Path, "/")+1:]
	bsegs := strings.Split(strings.Trim(bdir, "/"), "/")
	asegs := strings.Split(strings.Trim(adir, "/"), "/")
	if bdir == "/" || bdir == "" {
		bsegs = nil
	}
	if adir == "/" || adir == "" {
		asegs = nil
	}
	i := 0
	for i < len(bsegs) && i < len(asegs) && bsegs[i] == asegs[i] {
		i++
	}
	rel := strings.Repeat("../", len(bsegs)-i) + strings.Join(asegs[i:], "/")
	if len(asegs[i:]) > 0 {
		rel += "/"
	}
	rel += afile
	kind := "relative-path"
	if strings.HasPrefix(rel, "../") {
		kind = "relative-dotdot"
	}
	if rel == "" {
		// the target is the directory of the base itself
		if g.n(2, "dirself") == 0 {
			return "./" + frag, "relative-dot"
		}
		return abs, "absolute"
	}
	switch g.n(5, "decorate") {
	case 0:
		if !strings.HasPrefix(rel, "../") {
			rel, kind = "./"+rel, "relative-dot"
		}
	case 1:
		if !strings.HasPrefix(rel, "../") {
			rel, kind = "zz/../"+rel, "relative-dot-segments"
		}
	}
	return rel + frag, kind
}

func (g *gen) chooseRefs(rf *node) {
	for _, n := range g.nodes {
		n.computePtrs()
	}
	k := g.n(3, "nrefs")
	if rf.parent == nil && rf.doc.isRoot && k == 0 {
		k = 1
	}
	for i := 0; i < k; i++ {
		// choose a target: bias towards other documents and other resources
		var tg *node
		for try := 0; try < 6 && tg == nil; try++ {
			cand := g.nodes[g.n(len(g.nodes), "target")]
			if ids := g.identifications(rf, cand); len(ids) > 0 {
				tg = cand
			}
		}
		if tg == nil {
			continue
		}
		ids := g.identifications(rf, tg)
		id := ids[g.n(len(ids), "ident")]
		text, kind := g.relativise(rf.resource.base, id[0])
		if text == "" {
			text = "#"
			kind = "fragment-only"
		}
		if g.empty && tg == rf.resource && rf.resource.base.IsAbs() && !strings.Contains(id[0], "#") && g.n(2, "emptyref") == 0 {
			text, kind = "", "empty-reference"
		}
		rf.refs = append(rf.refs, &ref{name: fmt.Sprintf("q%d", i), target: tg, text: text, kind: id[1] + "/" + kind})
	}
}

func (g *gen) render(n *node) *jv.V {
	v := jv.ObjV()
	if n.id != "" {
		if n.idHash {
			v.Set("$id", jv.StrV(n.id+"#"))
		} else {
			v.Set("$id", jv.StrV(n.id))
		}
	}
	if n.anchor != "" {
		v.Set("$anchor", jv.StrV(n.anchor))
	}
	v.Set("anyOf", jv.ArrV(jv.ObjV(jv.Member{K: "const", V: jv.StrV(n.marker)}), jv.ObjV(jv.Member{K: "type", V: jv.StrV("object")})))
	if len(n.refs) > 0 {
		p := jv.ObjV()
		for _, r := range n.refs {
			p.Set(r.name, jv.ObjV(jv.Member{K: "$ref", V: jv.StrV(r.text)}))
		}
		v.Set("properties", p)
	}
	if len(n.children) > 0 {
		d := jv.ObjV()
		for _, c := range n.children {
			d.Set(c.name, g.render(c))
		}
		v.Set("$defs", d)
	}
	n.v = v
	return v
}

func (g *gen) routes() []Route {
	var out []Route
	root := g.docs[0].root
	k := 2 + g.n(4, "nroutes")
	for i := 0; i < k; i++ {
		cur := root
		var r Route
		steps := 1 + g.n(4, "routelen")
		for s := 0; s < steps && len(cur.refs) > 0; s++ {
			rf := cur.refs[g.n(len(cur.refs), "hop")]
			r.Path = append(r.Path, rf.name)
			r.Kinds = append(r.Kinds, rf.kind)
			cur = rf.target
		}
		if len(r.Path) == 0 {
			continue
		}
		r.Intended = cur.marker
		out = append(out, r)
	}
	sort.SliceStable(out, func(i, j int) bool { return len(out[i].Path) < len(out[j].Path) })
	return out
}

// Instance builds the routing instance for a route ending in marker.
func Instance(path []string, marker string) *jv.V {
	v := jv.StrV(marker)
	for i := len(path) - 1; i >= 0; i-- {
		v = jv.ObjV(jv.Member{K: path[i], V: v})
	}
	return v
}
