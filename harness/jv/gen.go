package jv

import (
	"math/big"

	"pgregory.net/rapid"
)

// NumPool: every literal is exactly representable in float64 (checked in init).
// It contains the boundaries the code and the specification mention: 0, ±1, small primes,
// dyadic fractions, the bounds of every sized integer kind ±1, 2^53 and neighbours, 2^63,
// 2^64, and a large power of two.
var NumPool = []string{
	"0", "-0", "1", "-1", "2", "3", "4", "5", "7", "10", "12", "100",
	"2.5", "-0.25", "0.125", "0.5", "1.5", "-1.5", "7.5", "1024.5", "0.9921875",
	"-129", "-128", "-127", "126", "127", "128", // int8
	"254", "255", "256", // uint8
	"-32769", "-32768", "32767", "32768", // int16
	"65535", "65536", // uint16
	"-2147483649", "-2147483648", "2147483647", "2147483648", // int32
	"4294967295", "4294967296", // uint32
	"9007199254740992", "9007199254740994", "-9007199254740992", // 2^53, 2^53+2
	"-9223372036854775808", "9223372036854775808", // -2^63, 2^63
	"18446744073709551616",            // 2^64
	"1267650600228229401496703205376", // 2^100
	"1000000000000000",                // 1e15
}

// IntOnlyPool: integers that are NOT float64-exact (representable only by int64/uint64/
// json.Number). Used by the equality properties (C11/C12), never where the canonical
// float64 decoding is the reference.
var IntOnlyPool = []string{
	"9007199254740993", "-9007199254740993", // 2^53+1
	"9223372036854775807",  // MaxInt64
	"18446744073709551615", // MaxUint64
	"9223372036854775806",
}

// Float32Pool: exactly the values of float32(0.1), float32(2.7), float32(-0.3), float32(1e-3):
// float64-exact and float32-exact, but encoding/json spells the float32 with fewer digits.
var Float32Pool = []string{
	"0.100000001490116119384765625", "2.7000000476837158203125", "-0.300000011920928955078125", "0.001000000047497451305389404296875",
}

// StrPool: code-point vs byte vs UTF-16 length differ; JSON-Pointer and URI escapes.
var StrPool = []string{
	"", "a", "b", "ab", "abc", "abcd", "\u00e9", "e\u0301", "日本", "😀", "a/b", "~", "~0", "~1", "%",
	"a b", "0", "1", "01", "-", "$ref", "A", "aa", "ba", "bc", "c", "\x01",
}

// KeyPool: object member names shared between schemas and instances.
var KeyPool = []string{"a", "b", "c", "d", "ab", "\u00e9", "e\u0301", ""}

func init() {
	for _, s := range NumPool {
		if !NumV(s).Float64Exact() {
			panic("jv: NumPool literal not float64-exact: " + s)
		}
	}
	for _, s := range IntOnlyPool {
		if NumV(s).Float64Exact() {
			panic("jv: IntOnlyPool literal is float64-exact: " + s)
		}
	}
}

// Respell returns an equivalent spelling of a number literal chosen by sel.
func Respell(v *V, sel int) *V {
	out := v.Clone()
	if v.N.Sign() == 0 {
		// zero has signed spellings too; they denote the same JSON value
		out.Text = []string{"0", "-0", "0.0", "-0.0", "0e0", "-0e1", "0.00", "-0", "0", "-0.0"}[sel%10]
		return out
	}
	base := RatText(v.N)
	switch sel % 5 {
	case 0:
		out.Text = base
	case 1:
		if v.N.IsInt() && len(base) < 18 {
			out.Text = base + ".0"
		}
	case 2:
		if len(base) < 18 {
			out.Text = base + "e0"
		}
	case 3:
		// multiply mantissa by 10, exponent -1
		r := new(big.Rat).Mul(v.N, big.NewRat(10, 1))
		t := RatText(r)
		if len(t) < 18 {
			out.Text = t + "e-1"
		}
	case 4:
		if v.N.IsInt() && len(base) < 18 {
			out.Text = base + ".00"
		}
	}
	if out.Text == "" {
		out.Text = base
	}
	return out
}

// GenNum draws a float64-exact number with a random equivalent spelling.
func GenNum() *rapid.Generator[*V] {
	return rapid.Custom(func(t *rapid.T) *V {
		v := NumV(rapid.SampledFrom(NumPool).Draw(t, "num"))
		return Respell(v, rapid.IntRange(0, 9).Draw(t, "spell"))
	})
}

// GenNumWide additionally draws integers that are not float64-exact.
func GenNumWide() *rapid.Generator[*V] {
	return rapid.Custom(func(t *rapid.T) *V {
		switch rapid.IntRange(0, 9).Draw(t, "wide") {
		case 0, 1:
			return NumV(rapid.SampledFrom(IntOnlyPool).Draw(t, "inum"))
		case 2:
			return NumV(rapid.SampledFrom(Float32Pool).Draw(t, "f32num"))
		}
		return GenNum().Draw(t, "n")
	})
}

// Opts controls value generation.
type Opts struct {
	MaxDepth int
	MaxLen   int
	Wide     bool     // allow non-float64-exact integers
	Keys     []string // member-name pool (default KeyPool)
	Strs     []string // string pool (default StrPool)
}

func (o Opts) keys() []string {
	if o.Keys != nil {
		return o.Keys
	}
	return KeyPool
}
func (o Opts) strs() []string {
	if o.Strs != nil {
		return o.Strs
	}
	return StrPool
}

// Gen draws a JSON value.
func Gen(o Opts) *rapid.Generator[*V] {
	if o.MaxLen == 0 {
		o.MaxLen = 4
	}
	return rapid.Custom(func(t *rapid.T) *V { return gen(t, o, o.MaxDepth) })
}

func genLeaf(t *rapid.T, o Opts) *V {
	switch rapid.IntRange(0, 9).Draw(t, "leafkind") {
	case 0:
		return NullV()
	case 1:
		return BoolV(rapid.Bool().Draw(t, "b"))
	case 2, 3, 4, 5:
		if o.Wide {
			return GenNumWide().Draw(t, "n")
		}
		return GenNum().Draw(t, "n")
	default:
		return StrV(rapid.SampledFrom(o.strs()).Draw(t, "s"))
	}
}

func gen(t *rapid.T, o Opts, depth int) *V {
	k := 0
	if depth > 0 {
		k = rapid.IntRange(0, 9).Draw(t, "shape")
	}
	switch {
	case k <= 4:
		return genLeaf(t, o)
	case k <= 7:
		n := rapid.IntRange(0, o.MaxLen).Draw(t, "alen")
		out := &V{K: Arr, A: make([]*V, 0, n)}
		for i := 0; i < n; i++ {
			// planted duplicates: with probability 1/4 repeat an earlier element, possibly respelled
			if i > 0 && rapid.IntRange(0, 3).Draw(t, "dup") == 0 {
				src := out.A[rapid.IntRange(0, i-1).Draw(t, "dupidx")]
				out.A = append(out.A, EquivalentCopy(t, src))
				continue
			}
			out.A = append(out.A, gen(t, o, depth-1))
		}
		return out
	default:
		n := rapid.IntRange(0, o.MaxLen).Draw(t, "olen")
		out := &V{K: Obj, O: []Member{}}
		for i := 0; i < n; i++ {
			key := rapid.SampledFrom(o.keys()).Draw(t, "key")
			if out.Has(key) {
				continue
			}
			out.O = append(out.O, Member{key, gen(t, o, depth-1)})
		}
		return out
	}
}

// EquivalentCopy returns a value Equal to v but not necessarily identical: numbers are
// respelled, object members are permuted.
func EquivalentCopy(t *rapid.T, v *V) *V {
	switch v.K {
	case Num:
		return Respell(v, rapid.IntRange(0, 9).Draw(t, "respell"))
	case Arr:
		out := &V{K: Arr, A: make([]*V, len(v.A))}
		for i, e := range v.A {
			out.A[i] = EquivalentCopy(t, e)
		}
		return out
	case Obj:
		out := &V{K: Obj, O: make([]Member, len(v.O))}
		for i, m := range v.O {
			out.O[i] = Member{m.K, EquivalentCopy(t, m.V)}
		}
		if len(out.O) > 1 {
			// rotate by a drawn amount and optionally reverse: a cheap permutation family
			r := rapid.IntRange(0, len(out.O)-1).Draw(t, "rot")
			out.O = append(out.O[r:], out.O[:r]...)
			if rapid.Bool().Draw(t, "rev") {
				for i, j := 0, len(out.O)-1; i < j; i, j = i+1, j-1 {
					out.O[i], out.O[j] = out.O[j], out.O[i]
				}
			}
		}
		return out
	}
	return v.Clone()
}

// neighbours of a number: last-bit / off-by-one changes
func numNeighbour(t *rapid.T, v *V, wide bool) *V {
	r := new(big.Rat).Set(v.N)
	switch rapid.IntRange(0, 3).Draw(t, "nn") {
	case 0:
		r.Add(r, big.NewRat(1, 1))
	case 1:
		r.Sub(r, big.NewRat(1, 1))
	case 2:
		r.Add(r, big.NewRat(1, 1024))
	default:
		r.Neg(r)
		if r.Sign() == 0 {
			r.SetInt64(1)
		}
	}
	if !wide {
		// keep the value exactly representable in float64
		if f, exact := r.Float64(); !exact {
			r.SetFloat64(f)
		}
	}
	return NumRat(r)
}

// Mutate makes one single-point change somewhere in the tree and returns a new tree
// (the result is different from v as a JSON value in almost all cases; callers that need
// to know compare with Equal).
func Mutate(t *rapid.T, v *V, o Opts) *V {
	out := v.Clone()
	// collect node pointers
	var nodes []*V
	out.Walk(func(n *V) { nodes = append(nodes, n) })
	n := nodes[rapid.IntRange(0, len(nodes)-1).Draw(t, "mnode")]
	mutateNode(t, n, o)
	return out
}

func mutateNode(t *rapid.T, n *V, o Opts) {
	switch n.K {
	case Num:
		if rapid.IntRange(0, 3).Draw(t, "mk") == 0 {
			*n = *genLeaf(t, o)
		} else {
			*n = *numNeighbour(t, n, o.Wide)
		}
	case Str:
		switch rapid.IntRange(0, 3).Draw(t, "mk") {
		case 0:
			*n = *StrV(n.S + "a")
		case 1:
			if n.S == "\u00e9" {
				*n = *StrV("e\u0301")
			} else if n.S == "e\u0301" {
				*n = *StrV("\u00e9")
			} else {
				*n = *StrV(rapid.SampledFrom(o.strs()).Draw(t, "s"))
			}
		case 2:
			*n = *StrV(rapid.SampledFrom(o.strs()).Draw(t, "s"))
		default:
			*n = *genLeaf(t, o)
		}
	case Null, Bool:
		switch rapid.IntRange(0, 2).Draw(t, "mk") {
		case 0:
			*n = *BoolV(!n.B)
		case 1:
			*n = *NumV(rapid.SampledFrom([]string{"0", "1"}).Draw(t, "zn"))
		default:
			*n = *genLeaf(t, o)
		}
	case Arr:
		switch k := rapid.IntRange(0, 4).Draw(t, "mk"); {
		case k == 0 || len(n.A) == 0:
			n.A = append(n.A, gen(t, o, 1))
		case k == 1:
			i := rapid.IntRange(0, len(n.A)-1).Draw(t, "i")
			n.A = append(n.A[:i:i], n.A[i+1:]...)
		case k == 2:
			i := rapid.IntRange(0, len(n.A)-1).Draw(t, "i")
			n.A = append(n.A, n.A[i].Clone())
		case k == 3 && len(n.A) > 1:
			i := rapid.IntRange(0, len(n.A)-2).Draw(t, "i")
			n.A[i], n.A[i+1] = n.A[i+1], n.A[i]
		default:
			*n = *genLeaf(t, o)
		}
	case Obj:
		switch k := rapid.IntRange(0, 3).Draw(t, "mk"); {
		case k == 0 || len(n.O) == 0:
			key := rapid.SampledFrom(o.keys()).Draw(t, "key")
			n.Set(key, gen(t, o, 1))
		case k == 1:
			i := rapid.IntRange(0, len(n.O)-1).Draw(t, "i")
			n.Del(n.O[i].K)
		case k == 2:
			i := rapid.IntRange(0, len(n.O)-1).Draw(t, "i")
			key := rapid.SampledFrom(o.keys()).Draw(t, "key")
			if !n.Has(key) {
				n.O[i].K = key
			} else {
				n.Del(n.O[i].K)
			}
		default:
			*n = *genLeaf(t, o)
		}
	}
}
