// Package jv is the harness's own representation of JSON values: a tree over
// null | bool | number (exact rational) | string | array | object, with canonical equality
// (rational equality on numbers, code-point equality on strings, order-insensitive objects),
// small shared leaf pools, rapid generators and single-point mutation.
//
// Nothing here uses the library under test.
package jv

import (
	"bytes"
	"encoding/json"
	"fmt"
	"math"
	"math/big"
	"sort"
	"strconv"
	"strings"
)

type Kind int

const (
	Null Kind = iota
	Bool
	Num
	Str
	Arr
	Obj
)

func (k Kind) String() string {
	return [...]string{"null", "boolean", "number", "string", "array", "object"}[k]
}

// Member is one key/value pair of an object. Keys are unique within an object.
type Member struct {
	K string
	V *V
}

// V is a JSON value.
type V struct {
	K    Kind
	B    bool
	N    *big.Rat // for Num
	Text string   // for Num: the JSON spelling to use when writing the value as text
	S    string
	A    []*V
	O    []Member
}

func NullV() *V            { return &V{K: Null} }
func BoolV(b bool) *V      { return &V{K: Bool, B: b} }
func StrV(s string) *V     { return &V{K: Str, S: s} }
func ArrV(xs ...*V) *V     { return &V{K: Arr, A: xs} }
func ObjV(ms ...Member) *V { return &V{K: Obj, O: ms} }

// NumV makes a number from a JSON number literal. It panics on a malformed literal
// (literals come from pools and generators, never from the code under test).
func NumV(text string) *V {
	r, ok := new(big.Rat).SetString(text)
	if !ok {
		panic("jv: bad number literal " + text)
	}
	return &V{K: Num, N: r, Text: text}
}

// NumRat makes a number from a rational with a plain decimal / integer spelling.
func NumRat(r *big.Rat) *V {
	return &V{K: Num, N: new(big.Rat).Set(r), Text: RatText(r)}
}

// RatText spells a rational that has a finite decimal expansion (all pool numbers do).
func RatText(r *big.Rat) string {
	if r.IsInt() {
		return r.Num().String()
	}
	// denominators are of the form 2^a*5^b for every number we generate
	for prec := 1; prec < 1200; prec++ {
		s := r.FloatString(prec)
		back, _ := new(big.Rat).SetString(s)
		if back.Cmp(r) == 0 {
			return s
		}
	}
	panic("jv: no finite decimal expansion for " + r.String())
}

// NegZero reports whether the number is zero spelled with a minus sign ("-0", "-0.0", "-0e3"):
// the same JSON value as 0, but a different float64 once decoded.
func (v *V) NegZero() bool {
	return v.K == Num && v.N.Sign() == 0 && strings.HasPrefix(v.Text, "-")
}

// IsInteger reports whether a Num has zero fractional part.
func (v *V) IsInteger() bool { return v.K == Num && v.N.IsInt() }

// Float64Exact reports whether the number is exactly representable as a float64.
func (v *V) Float64Exact() bool {
	if v.K != Num {
		return false
	}
	f, exact := v.N.Float64()
	return exact && !math.IsInf(f, 0)
}

// AllFloat64Exact reports whether every number in the tree is float64-exact.
func (v *V) AllFloat64Exact() bool {
	switch v.K {
	case Num:
		return v.Float64Exact()
	case Arr:
		for _, e := range v.A {
			if !e.AllFloat64Exact() {
				return false
			}
		}
	case Obj:
		for _, m := range v.O {
			if !m.V.AllFloat64Exact() {
				return false
			}
		}
	}
	return true
}

// Get returns the member value for key, or nil.
func (v *V) Get(key string) *V {
	if v.K != Obj {
		return nil
	}
	for _, m := range v.O {
		if m.K == key {
			return m.V
		}
	}
	return nil
}

// Has reports whether the object has the key.
func (v *V) Has(key string) bool { return v.Get(key) != nil }

// Set adds or replaces a member (in place).
func (v *V) Set(key string, val *V) {
	for i := range v.O {
		if v.O[i].K == key {
			v.O[i].V = val
			return
		}
	}
	v.O = append(v.O, Member{key, val})
}

// Del removes a member (in place).
func (v *V) Del(key string) {
	for i := range v.O {
		if v.O[i].K == key {
			v.O = append(v.O[:i:i], v.O[i+1:]...)
			return
		}
	}
}

// Keys returns the keys in member order.
func (v *V) Keys() []string {
	ks := make([]string, len(v.O))
	for i, m := range v.O {
		ks[i] = m.K
	}
	return ks
}

// Clone makes a deep copy.
func (v *V) Clone() *V {
	if v == nil {
		return nil
	}
	c := *v
	if v.N != nil {
		c.N = new(big.Rat).Set(v.N)
	}
	if v.A != nil {
		c.A = make([]*V, len(v.A))
		for i, e := range v.A {
			c.A[i] = e.Clone()
		}
	}
	if v.O != nil {
		c.O = make([]Member, len(v.O))
		for i, m := range v.O {
			c.O[i] = Member{m.K, m.V.Clone()}
		}
	}
	return &c
}

// Equal is canonical JSON equality.
func Equal(a, b *V) bool {
	if a.K != b.K {
		return false
	}
	switch a.K {
	case Null:
		return true
	case Bool:
		return a.B == b.B
	case Num:
		return a.N.Cmp(b.N) == 0
	case Str:
		return a.S == b.S
	case Arr:
		if len(a.A) != len(b.A) {
			return false
		}
		for i := range a.A {
			if !Equal(a.A[i], b.A[i]) {
				return false
			}
		}
		return true
	case Obj:
		if len(a.O) != len(b.O) {
			return false
		}
		for _, m := range a.O {
			o := b.Get(m.K)
			if o == nil || !Equal(m.V, o) {
				return false
			}
		}
		return true
	}
	panic("unreachable")
}

// Canon writes a canonical form (sorted keys, normalised rationals): Equal(a,b) iff
// Canon(a) == Canon(b).
func (v *V) Canon() string {
	var sb strings.Builder
	v.canon(&sb)
	return sb.String()
}

func (v *V) canon(sb *strings.Builder) {
	switch v.K {
	case Null:
		sb.WriteString("null")
	case Bool:
		if v.B {
			sb.WriteString("true")
		} else {
			sb.WriteString("false")
		}
	case Num:
		sb.WriteString("#")
		sb.WriteString(v.N.RatString())
	case Str:
		sb.WriteString(strconv.Quote(v.S))
	case Arr:
		sb.WriteByte('[')
		for i, e := range v.A {
			if i > 0 {
				sb.WriteByte(',')
			}
			e.canon(sb)
		}
		sb.WriteByte(']')
	case Obj:
		ms := append([]Member(nil), v.O...)
		sort.Slice(ms, func(i, j int) bool { return ms[i].K < ms[j].K })
		sb.WriteByte('{')
		for i, m := range ms {
			if i > 0 {
				sb.WriteByte(',')
			}
			sb.WriteString(strconv.Quote(m.K))
			sb.WriteByte(':')
			m.V.canon(sb)
		}
		sb.WriteByte('}')
	}
}

// JSON writes the value as JSON text, numbers in their chosen spelling, members in order.
func (v *V) JSON() string {
	var sb strings.Builder
	v.write(&sb)
	return sb.String()
}

func quoteJSON(s string) string {
	var buf bytes.Buffer
	enc := json.NewEncoder(&buf)
	enc.SetEscapeHTML(false)
	_ = enc.Encode(s)
	return strings.TrimSuffix(buf.String(), "\n")
}

func (v *V) write(sb *strings.Builder) {
	switch v.K {
	case Null:
		sb.WriteString("null")
	case Bool:
		if v.B {
			sb.WriteString("true")
		} else {
			sb.WriteString("false")
		}
	case Num:
		if v.Text != "" {
			sb.WriteString(v.Text)
		} else {
			sb.WriteString(RatText(v.N))
		}
	case Str:
		sb.WriteString(quoteJSON(v.S))
	case Arr:
		sb.WriteByte('[')
		for i, e := range v.A {
			if i > 0 {
				sb.WriteByte(',')
			}
			e.write(sb)
		}
		sb.WriteByte(']')
	case Obj:
		sb.WriteByte('{')
		for i, m := range v.O {
			if i > 0 {
				sb.WriteByte(',')
			}
			sb.WriteString(quoteJSON(m.K))
			sb.WriteByte(':')
			m.V.write(sb)
		}
		sb.WriteByte('}')
	}
}

// JSONSpelled writes the value like JSON but lets spell choose an equivalent JSON spelling for
// every string and key (e.g. with \uXXXX escapes) and inserts insignificant whitespace.
func (v *V) JSONSpelled(spell func(s string) string) string {
	var sb strings.Builder
	v.writeSpelled(&sb, spell)
	return sb.String()
}

func (v *V) writeSpelled(sb *strings.Builder, spell func(string) string) {
	switch v.K {
	case Str:
		sb.WriteString(spell(v.S))
	case Arr:
		sb.WriteString("[ ")
		for i, e := range v.A {
			if i > 0 {
				sb.WriteString(" ,\n")
			}
			e.writeSpelled(sb, spell)
		}
		sb.WriteString("\t]")
	case Obj:
		sb.WriteString("{\n")
		for i, m := range v.O {
			if i > 0 {
				sb.WriteString(",\r\n ")
			}
			sb.WriteString(spell(m.K))
			sb.WriteString(" : ")
			m.V.writeSpelled(sb, spell)
		}
		sb.WriteString(" }")
	default:
		v.write(sb)
	}
}

// EscapeSpelling spells a string as a JSON string literal in which the characters selected by
// pick (called once per rune, true = escape) are written as \uXXXX escapes.
func EscapeSpelling(s string, pick func() bool) string {
	var sb strings.Builder
	sb.WriteByte('"')
	for _, r := range s {
		switch {
		case r == '"' || r == '\\' || r < 0x20:
			fmt.Fprintf(&sb, "\\u%04x", r)
		case r < 0x10000 && pick():
			fmt.Fprintf(&sb, "\\u%04x", r)
		case r >= 0x10000 && pick():
			r -= 0x10000
			fmt.Fprintf(&sb, "\\u%04x\\u%04x", 0xd800+(r>>10), 0xdc00+(r&0x3ff))
		default:
			sb.WriteRune(r)
		}
	}
	sb.WriteByte('"')
	return sb.String()
}

// MarshalJSON makes *V usable inside evidence samples and replay files.
func (v *V) MarshalJSON() ([]byte, error) { return []byte(v.JSON()), nil }

// UnmarshalJSON parses JSON text, keeping number spellings.
func (v *V) UnmarshalJSON(b []byte) error {
	p, err := Parse(string(b))
	if err != nil {
		return err
	}
	*v = *p
	return nil
}

// Parse reads JSON text. Duplicate keys: the last one wins (as encoding/json does).
func Parse(text string) (*V, error) {
	dec := json.NewDecoder(strings.NewReader(text))
	dec.UseNumber()
	v, err := parseValue(dec)
	if err != nil {
		return nil, err
	}
	if _, err := dec.Token(); err == nil {
		return nil, fmt.Errorf("jv: trailing data")
	}
	return v, nil
}

// MustParse panics on error (harness-side literals only).
func MustParse(text string) *V {
	v, err := Parse(text)
	if err != nil {
		panic(fmt.Sprintf("jv.MustParse(%s): %v", text, err))
	}
	return v
}

func parseValue(dec *json.Decoder) (*V, error) {
	tok, err := dec.Token()
	if err != nil {
		return nil, err
	}
	return parseTok(dec, tok)
}

func parseTok(dec *json.Decoder, tok json.Token) (*V, error) {
	switch t := tok.(type) {
	case nil:
		return NullV(), nil
	case bool:
		return BoolV(t), nil
	case json.Number:
		r, ok := new(big.Rat).SetString(string(t))
		if !ok {
			return nil, fmt.Errorf("jv: number %s too large", t)
		}
		return &V{K: Num, N: r, Text: string(t)}, nil
	case string:
		return StrV(t), nil
	case json.Delim:
		switch t {
		case '[':
			out := &V{K: Arr, A: []*V{}}
			for dec.More() {
				e, err := parseValue(dec)
				if err != nil {
					return nil, err
				}
				out.A = append(out.A, e)
			}
			if _, err := dec.Token(); err != nil {
				return nil, err
			}
			return out, nil
		case '{':
			out := &V{K: Obj, O: []Member{}}
			for dec.More() {
				kt, err := dec.Token()
				if err != nil {
					return nil, err
				}
				k, ok := kt.(string)
				if !ok {
					return nil, fmt.Errorf("jv: non-string key")
				}
				e, err := parseValue(dec)
				if err != nil {
					return nil, err
				}
				out.Set(k, e)
			}
			if _, err := dec.Token(); err != nil {
				return nil, err
			}
			return out, nil
		}
	}
	return nil, fmt.Errorf("jv: unexpected token %v", tok)
}

// ToAny converts to the canonical Go decoding (what json.Unmarshal into `any` yields):
// float64, string, bool, nil, []any, map[string]any. Numbers are rounded to float64
// exactly like encoding/json would (callers that need exactness check AllFloat64Exact).
func (v *V) ToAny() any {
	switch v.K {
	case Null:
		return nil
	case Bool:
		return v.B
	case Num:
		if v.NegZero() {
			return math.Copysign(0, -1) // what encoding/json decodes "-0" into
		}
		f, _ := v.N.Float64()
		return f
	case Str:
		return v.S
	case Arr:
		out := make([]any, len(v.A))
		for i, e := range v.A {
			out[i] = e.ToAny()
		}
		return out
	case Obj:
		out := make(map[string]any, len(v.O))
		for _, m := range v.O {
			out[m.K] = m.V.ToAny()
		}
		return out
	}
	panic("unreachable")
}

// FromAny converts a decoded JSON value (float64 | json.Number | string | bool | nil |
// []any | map[string]any) to a V; map keys are sorted.
func FromAny(x any) *V {
	switch t := x.(type) {
	case nil:
		return NullV()
	case bool:
		return BoolV(t)
	case float64:
		r := new(big.Rat)
		r.SetFloat64(t)
		return NumRat(r)
	case json.Number:
		return NumV(string(t))
	case string:
		return StrV(t)
	case []any:
		out := &V{K: Arr, A: make([]*V, len(t))}
		for i, e := range t {
			out.A[i] = FromAny(e)
		}
		return out
	case map[string]any:
		ks := make([]string, 0, len(t))
		for k := range t {
			ks = append(ks, k)
		}
		sort.Strings(ks)
		out := &V{K: Obj, O: make([]Member, 0, len(ks))}
		for _, k := range ks {
			out.O = append(out.O, Member{k, FromAny(t[k])})
		}
		return out
	}
	panic(fmt.Sprintf("jv.FromAny: unsupported %T", x))
}

// Depth returns the nesting depth (leaves are 0).
func (v *V) Depth() int {
	d := 0
	switch v.K {
	case Arr:
		for _, e := range v.A {
			if x := e.Depth() + 1; x > d {
				d = x
			}
		}
		if len(v.A) == 0 {
			d = 0
		}
	case Obj:
		for _, m := range v.O {
			if x := m.V.Depth() + 1; x > d {
				d = x
			}
		}
	}
	return d
}

// Walk calls f on every node, preorder.
func (v *V) Walk(f func(*V)) {
	f(v)
	switch v.K {
	case Arr:
		for _, e := range v.A {
			e.Walk(f)
		}
	case Obj:
		for _, m := range v.O {
			m.V.Walk(f)
		}
	}
}

// Size is the number of nodes.
func (v *V) Size() int {
	n := 0
	v.Walk(func(*V) { n++ })
	return n
}
